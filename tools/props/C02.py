"""C02 -- converged convex fits reach the reference optimum (drop-in equivalence)."""
import math, random
import numpy as np
from scipy import sparse
import kernels, tvlib
import solverlib as sl

GEN_SOURCES = ["skglm/penalties/separable.py", "skglm/datafits/single_task.py"]
EXTRA_TARGETS = ["Gen/DfSingle.vo", "Gen/PenSeparable.vo"]
TRUSTED_BASE = [
    "Coq 8.16.1 kernel (coqc); vm_compute only in correspondence files",
    "axioms: Reals (sig_forall_dec, sig_not_dec), functional_extensionality_dep, Classical_Prop.classic",
    "the theorem is about the mathematical objective (datafit on X w + b 1 plus separable convex penalties); its hypotheses are discharged by "
    "C06 (gradients), C08 (scores are distances to subdifferentials, attained) and the convexity lemmas proved here (Quadratic)",
    "reference implementations (scikit-learn Lasso / ElasticNet / LogisticRegression) are outside the model",
]
ASSUMPTIONS = [
    "that an algorithm REACHES stop_crit <= tol (convergence in floating point) is not proved; uniqueness of the minimiser (same coefficients) "
    "and group / multitask / quantile / sqrt-Lasso families: differential-run oracle (partial)",
]
RULE = ("correspondence: regenerated value / gradient / score kernels vs real objects (as C06 / C08); oracle: the same convex problem solved by "
        "every applicable skglm solver (AndersonCD, GramCD, FISTA, ProxNewton, GroupBCD vs GroupProxNewton, PDCD_WS vs ProxNewton on "
        "sqrt-Lasso) and by scikit-learn where a reference exists: objective gap below the proved bound eps * (||w - w'||_1 + |b - b'|) + 1e-9 "
        "and equal coefficients when the design has full column rank; non-trivial = non-zero solution")


def correspondence(tier, rng):
    n = 120 if tier == "quick" else 700
    cases = [c for c in kernels.gen_datafits(rng, n) if "Quadratic_" in c[0]]
    cases += [c for c in kernels.gen_penalties(rng, n) if ("L1_" in c[0] or "L1_plus_L2" in c[0]) and ("subdiff" in c[0] or "value" in c[0])]
    r = tvlib.run_cases(cases, ["Gen.ProxFuncs", "Gen.PenSeparable", "Gen.SparseOps", "Gen.DfSingle"], "C02", shard=40, jobs=16)
    return dict(cases=len(cases), bad=r["bad"][:10], errors=r["errors"], distribution=dict(cases=len(cases)),
                distinct_nontrivial=len({c[0] for c in cases}), samples=[dict(case=c[0][:300]) for c in cases[:2]])


def oracle(tier, rng, deep=False):
    import skglm.datafits as sd, skglm.penalties as sp, skglm.solvers as ss
    from skglm.experimental.pdcd_ws import PDCD_WS
    from skglm.experimental.sqrt_lasso import SqrtQuadratic
    import sklearn.linear_model as skl
    cc = sl.cc
    failures = []
    ev = nontriv = 0
    tol = 1e-9
    nrep = 6 if tier == "quick" and not deep else (18 if tier == "quick" else 40)   # quick + broken obligation: 3x the quick search

    def compare(label, sols, F, inp, fi):
        """sols: list of (name, w, b, stop)"""
        nonlocal ev, nontriv
        sols = [s for s in sols if s is not None]
        for i in range(len(sols)):
            for j in range(i + 1, len(sols)):
                (na, wa, ba, sa), (nb, wb, bb, sb) = sols[i], sols[j]
                ev += 1
                if np.any(wa != 0):
                    nontriv += 1
                eps = max(sa, sb, 1e-8)
                bound = eps * (np.sum(np.abs(wa - wb)) + abs(ba - bb)) + 1e-9 * (1 + abs(F(wa, ba)))
                gap = abs(F(wa, ba) - F(wb, bb))
                if gap > bound:
                    failures.append(dict(site=f"objective-gap:{label}:{na}-vs-{nb}", input=inp, observed=dict(gap=gap, bound=bound, Fa=F(wa, ba), Fb=F(wb, bb))))
    for _ in range(nrep):
        X, y = sl.make_problem(rng, n=rng.randint(10, 16), p=rng.randint(2, 6))
        n, p = X.shape
        fi = rng.random() < 0.5
        amax = float(np.max(np.abs(X.T @ (y - y.mean() if fi else y)))) / n
        a = amax * rng.choice([0.05, 0.3])
        r = rng.choice([0.3, 0.7])
        Xf = np.asfortranarray(X)
        inp = dict(X=X.tolist(), y=y.tolist(), alpha=a, l1_ratio=r, fit_intercept=fi)
        try:
            for pk, pen, PP, ref in [
                ("L1", sp.L1(a), dict(alpha=a), lambda: skl.Lasso(alpha=a, fit_intercept=fi, tol=1e-14, max_iter=100000).fit(X, y)),
                ("L1_plus_L2", sp.L1_plus_L2(a, r), dict(alpha=a, l1_ratio=r), lambda: skl.ElasticNet(alpha=a, l1_ratio=r, fit_intercept=fi, tol=1e-14, max_iter=100000).fit(X, y)),
            ]:
                F = lambda w, b, pk=pk, PP=PP: sl.objective("Quadratic", {}, pk, PP, X, y, w, b)
                sols = []
                w, b, _, s = sl.run(ss.AndersonCD(tol=tol, fit_intercept=fi, max_iter=300), Xf, y, cc(sd.Quadratic()), cc(pen)); sols.append(("AndersonCD", w, b, s))
                w, b, _, s = sl.run(ss.AndersonCD(tol=tol, fit_intercept=fi, max_iter=300, ws_strategy="fixpoint"), sparse.csc_matrix(X), y, cc(sd.Quadratic()), cc(pen)); sols.append(("AndersonCD-csc-fixpoint", w, b, max(s, 1e-8)))
                if not fi:
                    w, b, _, s = sl.run(ss.GramCD(tol=tol, fit_intercept=False, max_iter=5000), Xf, y, None, cc(pen)); sols.append(("GramCD", w, b, s))
                    df = cc(sd.Quadratic()); df.initialize(Xf, y)
                    w, b, _, s = sl.run(ss.FISTA(tol=1e-10, max_iter=20000), Xf, y, df, cc(pen)); sols.append(("FISTA", w, b, 1e-7))
                    df = cc(sd.Quadratic()); df.initialize(Xf, y)
                    w, b, _, s = sl.run(ss.ProxNewton(tol=tol, fit_intercept=False, max_iter=100), Xf, y, df, cc(pen)); sols.append(("ProxNewton", w, b, s))
                m = ref()
                sols.append(("sklearn", np.asarray(m.coef_, dtype=float), float(m.intercept_) if fi else 0.0, 1e-7))
                compare(f"Quadratic+{pk}", sols, F, inp, fi)
            # logistic: AndersonCD vs ProxNewton vs sklearn
            ys = np.sign(y - np.median(y)); ys[ys == 0] = 1
            al = float(np.max(np.abs(X.T @ ys))) / (2 * n) * 0.3
            F = lambda w, b: sl.objective("Logistic", {}, "L1", dict(alpha=al), X, ys, w, b)
            sols = []
            w, b, _, s = sl.run(ss.AndersonCD(tol=tol, fit_intercept=fi, max_iter=300), Xf, ys, cc(sd.Logistic()), cc(sp.L1(al))); sols.append(("AndersonCD", w, b, s))
            df = cc(sd.Logistic())
            w, b, _, s = sl.run(ss.ProxNewton(tol=tol, fit_intercept=fi, max_iter=100), Xf, ys, df, cc(sp.L1(al))); sols.append(("ProxNewton", w, b, s))
            m = skl.LogisticRegression(penalty="l1", C=1 / (al * n), solver="liblinear", fit_intercept=False, tol=1e-12, max_iter=10000).fit(X, ys) if not fi else None
            if m is not None:
                sols.append(("sklearn-liblinear", m.coef_.ravel(), 0.0, 1e-5))
            compare("Logistic+L1", sols, F, dict(inp, y=ys.tolist(), alpha=al), fi)
            # group lasso: GroupBCD vs GroupProxNewton (logistic)
            gp, gi = sl.make_groups(rng, p)
            gw = np.ones(len(gp) - 1)
            ag = al
            PPg = dict(alpha=ag, weights=gw, grp_ptr=gp, grp_indices=gi)
            F = lambda w, b: sl.objective("Logistic", {}, "WeightedGroupL2", PPg, X, ys, w, b)
            w1, b1, _, s1 = sl.run_group("GroupBCD", rng, Xf, ys, "Logistic", gp, gi, ag, gw, False, dict(tol=tol, fit_intercept=fi, max_iter=2000, max_epochs=1000))
            w2, b2, _, s2 = sl.run_group("GroupProxNewton", rng, Xf, ys, "Logistic", gp, gi, ag, gw, False, dict(tol=tol, fit_intercept=fi, max_iter=200))
            compare("LogisticGroup+WeightedGroupL2", [("GroupBCD", w1, b1, s1), ("GroupProxNewton", w2, b2, s2)], F, dict(inp, y=ys.tolist(), alpha=ag, grp_ptr=gp.tolist(), grp_indices=gi.tolist()), fi)
            # sqrt-Lasso: ProxNewton vs PDCD_WS
            asq = float(np.max(np.abs(X.T @ y))) / np.linalg.norm(y) * 0.3
            Fs = lambda w, b: float(np.linalg.norm(y - X @ w) + asq * np.sum(np.abs(w)))
            w1, b1, _, s1 = sl.run(ss.ProxNewton(tol=1e-9, fit_intercept=False, max_iter=100), Xf, y, cc(SqrtQuadratic()), cc(sp.L1(asq)))
            w2, b2, _, s2 = sl.run(PDCD_WS(tol=1e-9, max_iter=500, max_epochs=5000), Xf, y, cc(SqrtQuadratic()), cc(sp.L1(asq)))
            ev += 1
            if abs(Fs(w1, 0) - Fs(w2, 0)) > 1e-6 * (1 + abs(Fs(w1, 0))):
                failures.append(dict(site="objective-gap:SqrtLasso:ProxNewton-vs-PDCD_WS", input=dict(inp, alpha=asq), observed=dict(F1=Fs(w1, 0), F2=Fs(w2, 0))))
            # SqrtLasso estimator: every point of path() and a single-alpha fit() reach the optimum of their own alpha
            # (reference = the converged direct solve above, objective compared)
            from skglm.experimental.sqrt_lasso import SqrtLasso
            amax_sq = float(np.max(np.abs(X.T @ y))) / float(np.linalg.norm(y))
            grid = np.array(sorted([amax_sq * f for f in rng.sample([0.9, 0.6, 0.45, 0.3, 0.15], rng.randint(2, 4))], reverse=True))
            al_out, coefs = SqrtLasso(tol=1e-9, max_iter=200).path(X, y, alphas=grid)[:2]
            coefs = np.asarray(coefs)
            coefs = coefs if coefs.shape[0] == len(al_out) else coefs.T      # one ROW per alpha (n_alphas, n_features)
            for t_, a in enumerate(al_out):
                wref, _, _, sref = sl.run(ss.ProxNewton(tol=1e-10, fit_intercept=False, max_iter=200), Xf, y, cc(SqrtQuadratic()), cc(sp.L1(float(a))))
                Fa = lambda w: float(np.linalg.norm(y - X @ w) + a * np.sum(np.abs(w)))
                ev += 1
                if np.linalg.norm(y - X @ wref) < 2e-2 * np.linalg.norm(y):
                    continue
                if Fa(coefs[t_]) - Fa(wref) > 1e-6 * (1 + abs(Fa(wref))):
                    failures.append(dict(site="objective-gap:SqrtLasso.path-vs-direct-solve", input=dict(inp, alphas=list(map(float, al_out)), t=t_),
                                         observed=dict(F_path=Fa(coefs[t_]), F_ref=Fa(wref))))
                    break
        except Exception as e:
            failures.append(dict(site="raises:pairwise", input=inp, observed=f"{type(e).__name__}: {str(e)[:300]}"))
    return dict(evaluations=ev, distinct_nontrivial=nontriv, failures=failures, samples=[dict(pairs=ev)])


def replay(payload):
    f = payload.get("failure")
    if not f:
        return dict(fails=False, note="unchecked obligation: " + "; ".join(b.get("what", "") for b in payload.get("broken", [])))
    res = oracle("thorough", random.Random(payload.get("seed", 0) + 1), deep=True)
    same = [x for x in res["failures"] if x["site"] == f["site"]]
    return dict(fails=bool(same), site=f["site"], reproduced=same[:1])
