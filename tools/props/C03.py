"""C03 -- monotone descent under every iteration budget; extrapolation never hurts."""
import math, random
import numpy as np
from scipy import sparse
import kernels, tvlib, harness_acd, harness_solvers
import solverlib as sl

GEN_SOURCES = ["skglm/solvers/anderson_cd.py", "skglm/datafits/single_task.py", "skglm/utils/prox_funcs.py", "skglm/penalties/separable.py", "skglm/solvers/gram_cd.py"]
EXTRA_TARGETS = ["Skel/MockACD.vo", "Gen/KernCD.vo", "Gen/KernACD.vo", "Gen/DfSingle.vo", "Gen/PenSeparable.vo", "Skel/CorrSolvers.vo", "Skel/GramCDProofs.vo", "Skel/GroupBCDProofs.vo", "Skel/ProxNewtonProofs.vo", "Skel/FistaProofs.vo", "Skel/GramCDAnderson.vo", "Skel/MultiTaskBCDProofs.vo", "Skel/GroupProxNewton.vo"]
TRUSTED_BASE = [
    "Coq 8.16.1 kernel (coqc); vm_compute only in correspondence files",
    "axioms: Reals (sig_forall_dec, sig_not_dec), functional_extensionality_dep, Classical_Prop.classic",
    "translator (epoch kernel, Quadratic gradient / Lipschitz kernels, prox kernels regenerated each run)",
    "hand-written skeleton Skel/AndersonCD.v tied by executed mock-kernel correspondence with the real _solve",
    "real-number reading of float code (descent up to rounding is checked by the oracle with a 1e-10 relative slack)",
]
ASSUMPTIONS = [
    "kernel theorem proved for the Quadratic datafit (exact curvature); solver-level lifting proved for the AndersonCD, GramCD and GroupBCD skeletons "
    "(hypothesis: one epoch does not increase the objective); Logistic / Huber / WeightedQuadratic epochs, block, multitask and Gram "
    "coordinate steps, prox-Newton line search, iterative reweighting: budget-sweep oracle on the implementation (partial)",
    "non-convex penalties inside their step range (MCP: step * weight < gamma; SCAD: step < gamma - 1)",
]
RULE = ("correspondence: mock-kernel traces of the real _solve (incl. accepted / rejected extrapolations) and real epoch kernels vs regenerated "
        "Gallina; oracle: every descent solver x datafit x penalty, budgets max_iter = 1..5 and max_epochs on and around the extrapolation "
        "period (5, 6, 7, 11, 12, 13), warm starts: documented objective recomputed from (X, y, w, b), F(start) >= F(1) >= F(2) >= ...; "
        "IterativeReweightedL1 loss history non-increasing; non-trivial = sweep with at least two distinct objective values")


def correspondence(tier, rng):
    n = 400 if tier == "quick" else 3000
    cases, dist = harness_acd.make_cases(rng, n)
    r1 = tvlib.run_cases(cases, ["Skel.AndersonCD", "Skel.MockACD"], "C03a", shard=12, jobs=16)
    kc = kernels.gen_cd_kernels(rng, 60 if tier == "quick" else 300)
    kc += [c for c in kernels.gen_datafits(rng, 60 if tier == "quick" else 300) if "Quadratic_" in c[0] and ("lipschitz" in c[0] or "gradient_scalar" in c[0] or "value" in c[0])]
    r2 = tvlib.run_cases(kc, ["Gen.ProxFuncs", "Gen.PenSeparable", "Gen.SparseOps", "Gen.DfSingle", "Gen.KernCD", "Gen.KernACD"],
                         "C03b", shard=25, jobs=16)
    base = dict(cases=len(cases) + len(kc), bad=(r1["bad"] + r2["bad"])[:10], errors=r1["errors"] + r2["errors"],
                distribution=dict(skeleton_runs=dist, kernel_cases=len(kc)),
                distinct_nontrivial=len({c[0] for c in cases}) + len({c[0] for c in kc}),
                samples=[dict(trace=cases[0][0][:500]), dict(case=kc[0][0][:300])])
    return harness_solvers.merge_corr(base, harness_solvers.solver_corr(tier, rng, "C03s"))


def oracle(tier, rng, deep=False):
    import skglm.datafits as sd, skglm.penalties as sp, skglm.solvers as ss
    failures, samples = [], []
    ev = nontriv = 0
    nrep = 24 if tier == "quick" and not deep else (72 if tier == "quick" else 160)   # quick + broken obligation: 3x the quick search
    for _ in range(nrep):
        sname = rng.choice(["AndersonCD", "AndersonCD", "GramCD", "ProxNewton", "GroupBCD", "MultiTaskBCD"])
        fi = rng.random() < 0.5 and sname != "GramCD"
        me = rng.choice([1, 5, 6, 7, 11, 12, 13, 50])
        p0 = rng.choice([1, 2, 10])
        try:
            if sname == "MultiTaskBCD":
                X, _ = sl.make_problem(rng)
                n, p = X.shape
                T = rng.randint(1, 3)
                Y = X @ np.array([[rng.gauss(0, 1) for _ in range(T)] for _ in range(p)]) + rng.choice([0.0, 2.0])
                alpha = float(np.max(np.linalg.norm(X.T @ Y, axis=1))) / n * rng.choice([0.02, 0.2])
                F0 = sl.mtl_objective(X, Y, np.zeros((p, T)), 0.0, alpha)
                mt_acc = rng.random() < 0.7
                Fs = [F0]
                for k in range(1, 6):
                    W, _, _ = ss.MultiTaskBCD(max_iter=k, max_epochs=me, p0=p0, tol=1e-14, fit_intercept=fi, use_acc=mt_acc).solve(
                        np.asfortranarray(X), np.asfortranarray(Y), sl.cc(sd.QuadraticMultiTask()), sl.cc(sp.L2_1(alpha)))
                    W = np.asarray(W)
                    Fs.append(sl.mtl_objective(X, Y, W[:p], W[-1] if fi else 0.0, alpha))
                label, inp = "MultiTaskBCD", dict(X=X.tolist(), Y=Y.tolist(), alpha=alpha, fit_intercept=fi, max_epochs=me, p0=p0)
            elif sname == "GroupBCD":
                dname = rng.choice(["Quadratic", "Logistic"])
                X, y = sl.make_problem(rng, kind="real" if dname == "Quadratic" else "sign")
                n, p = X.shape
                if p > 2:
                    X[:, 1] = X[:, 0] + 0.1 * X[:, 1]
                grp_ptr, grp_indices = sl.make_groups(rng, p)
                weights = np.array([rng.choice([0.5, 1.0, 2.0]) for _ in range(len(grp_ptr) - 1)])
                amax, _ = sl.alpha_max(dname, {}, X, y, fi)
                alpha = amax * rng.choice([0.02, 0.2])
                PP = dict(alpha=alpha, weights=weights, grp_ptr=grp_ptr, grp_indices=grp_indices)
                Fs = [sl.objective(dname, {}, "WeightedGroupL2", PP, X, y, np.zeros(p), 0.0)]
                for k in range(1, 6):
                    w, b, _, _ = sl.run_group("GroupBCD", rng, np.asfortranarray(X), y, dname, grp_ptr, grp_indices, alpha, weights, False,
                                              dict(max_iter=k, max_epochs=me, p0=p0, tol=1e-14, fit_intercept=fi))
                    Fs.append(sl.objective(dname, {}, "WeightedGroupL2", PP, X, y, w, b))
                label, inp = f"GroupBCD:{dname}", dict(X=X.tolist(), y=y.tolist(), alpha=alpha, fit_intercept=fi, max_epochs=me, p0=p0,
                                                       grp_ptr=grp_ptr.tolist(), grp_indices=grp_indices.tolist(), weights=weights.tolist())
            else:
                dname = "Quadratic" if sname == "GramCD" else rng.choice(sl.CD_DATAFITS if sname == "AndersonCD" else ["Logistic", "Poisson", "Gamma"])
                ctor, ykind, pgen = sl.DATAFITS[dname]
                X, y = sl.make_problem(rng, kind=ykind)
                wide = sname == "AndersonCD" and rng.random() < 0.3
                if wide:                                   # more features than samples, started from a dense point (support > n_samples)
                    X, y = sl.make_problem(rng, n=rng.randint(4, 7), p=rng.randint(9, 16), kind=ykind)
                n, p = X.shape
                if p > 2 and rng.random() < 0.5:
                    X[:, 1] = X[:, 0] + 0.05 * X[:, 1]
                if rng.random() < 0.2 and sname != "GramCD":      # zero columns with GramCD: C19's business
                    X[:, rng.randrange(p)] = 0.0
                DP = pgen(rng, n)
                amax, _ = sl.alpha_max(dname, DP, X, y, fi)
                alpha = amax * rng.choice([0.005, 0.05, 0.3])
                pk = rng.choice(sl.PROX_PENALTIES if dname in ("Quadratic", "WeightedQuadratic", "Huber") and sname != "ProxNewton" else ["L1", "L1_plus_L2", "WeightedL1"])
                pos = rng.random() < 0.2 and pk != "SCAD"
                pen, PP = sl.make_penalty(pk, rng, p, alpha, pos)
                w_init = Xw_init = None
                if wide or rng.random() < 0.3:
                    w_init = np.array([abs(rng.gauss(0, 1)) if (wide or rng.random() < 0.5) else 0.0 for _ in range(p + fi)])
                    Xw_init = X @ w_init[:p] + (w_init[-1] if fi else 0.0)
                w0, b0 = (np.zeros(p), 0.0) if w_init is None else (w_init[:p], (w_init[-1] if fi else 0.0))
                Fs = [sl.objective(dname, DP, pk, PP, X, y, w0, b0)]
                Xs = sparse.csc_matrix(X) if rng.random() < 0.3 else np.asfortranarray(X)
                acc = rng.random() < 0.6
                mpn = rng.choice([1, 3, 20])
                gcd = rng.random() < 0.5
                for k in range(1, 6):
                    knobs = dict(max_iter=k, tol=1e-14)
                    if sname == "AndersonCD":
                        knobs.update(max_epochs=me, p0=p0, fit_intercept=fi, ws_strategy="subdiff")
                    elif sname == "ProxNewton":
                        knobs.update(max_pn_iter=mpn, p0=p0, fit_intercept=fi)
                    else:
                        knobs.update(use_acc=acc, greedy_cd=gcd, fit_intercept=False)
                    df = None if sname == "GramCD" else sl.cc(ctor(DP))
                    if df is not None and sname == "ProxNewton" and hasattr(df, "initialize"):
                        df.initialize(X, y)
                    wi = None if w_init is None else w_init.copy()
                    xi = None if Xw_init is None else Xw_init.copy()
                    w, b, _, _ = sl.run(getattr(ss, sname)(**knobs), Xs, y, df, sl.cc(pen), wi, xi)
                    Fs.append(sl.objective(dname, DP, pk, PP, X, y, w, b))
                label = f"{sname}:{dname}:{pk}"
                inp = dict(X=X.tolist(), y=y.tolist(), alpha=alpha, fit_intercept=fi, max_epochs=me, p0=p0, penalty=pk, datafit=dname,
                           PP={k: np.asarray(v).tolist() for k, v in PP.items()}, DP={k: np.asarray(v).tolist() for k, v in DP.items()},
                           w_init=None if w_init is None else w_init.tolist(), use_acc=acc, greedy_cd=gcd)
        except (AttributeError, ValueError) as e:
            if "not compatible" in str(e) or "must implement" in str(e) or "Missing" in str(e) or "positive values" in str(e):
                continue
            failures.append(dict(site=f"raises:{sname}", input=dict(solver=sname), observed=repr(e)[:300]))
            continue
        except Exception as e:
            failures.append(dict(site=f"raises:{sname}", input=dict(solver=sname), observed=repr(e)[:300]))
            continue
        ev += 1
        if len({round(f, 12) for f in Fs}) >= 2:
            nontriv += 1
        for k in range(1, len(Fs)):
            if not (Fs[k] <= Fs[k - 1] + 1e-10 * (1 + abs(Fs[k - 1]))):
                failures.append(dict(site=f"objective-increases:{label.split(':')[0]}" + (":" + label.split(":")[1] if sname == "GroupBCD" else ""),
                                     input=dict(inp, label=label), observed=dict(budget=k, objectives=Fs)))
                break
        else:
            if len(samples) < 3:
                samples.append(dict(run=label, objectives=Fs))
    # iterative reweighting never increases the non-convex objective it majorises
    try:
        from skglm.experimental.reweighted import IterativeReweightedL1
        for _ in range(3 if tier == "quick" else 15):
            X, y = sl.make_problem(rng)
            alpha = 0.1 * float(np.max(np.abs(X.T @ y))) / len(y)
            est = IterativeReweightedL1(penalty=sp.L0_5(alpha), solver=ss.AndersonCD(tol=1e-10, fit_intercept=False), n_reweights=6).fit(X, y)
            ev += 1
            h = list(map(float, est.loss_history_))
            if any(h[k] > h[k - 1] + 1e-8 * (1 + abs(h[k - 1])) for k in range(1, len(h))):
                failures.append(dict(site="objective-increases:IterativeReweightedL1", input=dict(X=X.tolist(), y=y.tolist(), alpha=alpha), observed=h))
    except Exception as e:
        failures.append(dict(site="raises:IterativeReweightedL1", input={}, observed=repr(e)[:300]))
    return dict(evaluations=ev, distinct_nontrivial=nontriv, failures=failures, samples=samples or [dict(sweeps=ev)])


def replay(payload):
    f = payload.get("failure")
    if not f:
        return dict(fails=False, note="unchecked obligation: " + "; ".join(b.get("what", "") for b in payload.get("broken", [])))
    res = oracle("thorough", random.Random(payload.get("seed", 0) + 1), deep=True)
    same = [x for x in res["failures"] if x["site"] == f["site"]]
    return dict(fails=bool(same), site=f["site"], reproduced=same[:1])
