"""C09 -- step-size constants are valid curvature bounds."""
import math, random
import numpy as np
from scipy import sparse
import kernels, tvlib
import solverlib as sl
from speclib import datafit_instances, doc_loss

GEN_SOURCES = ["skglm/datafits/single_task.py", "skglm/utils/sparse_ops.py"]
EXTRA_TARGETS = ["Gen/DfSingle.vo", "Gen/SparseOps.vo"]
TRUSTED_BASE = [
    "Coq 8.16.1 kernel (coqc); vm_compute only in correspondence files",
    "axioms: Reals (sig_forall_dec, sig_not_dec), functional_extensionality_dep, Classical_Prop.classic",
    "translator tools/py2coq.py + signature table (get_lipschitz, raw_hessian regenerated each run)",
    "np.linalg.norm(ord=2) / spectral_norm power method: not modelled (global and group constants are checked by the oracle only)",
]
ASSUMPTIONS = [
    "proved: Quadratic coordinate constants are exactly mean squares of the columns and exactly the curvature of the documented loss; "
    "Quadratic raw_hessian; scalar logistic curvature bound. Other datafits, group / global constants, Cox / sqrt-loss dominance, "
    "power-method accuracy: curvature oracle on the implementation (partial)",
]
RULE = ("correspondence: regenerated get_lipschitz(_sparse) / raw_hessian vs real compiled datafits (zero columns included); oracle: for every "
        "datafit, returned coordinate / global constants vs second differences of the documented loss along coordinates and random directions "
        "at random points, raw_hessian vs (or dominating) the numeric Hessian diagonal, sparse vs dense constants, sparse global constant "
        "never above the dense one; non-trivial = non-zero column / direction")


def correspondence(tier, rng):
    n = 120 if tier == "quick" else 800
    cases = [c for c in kernels.gen_datafits(rng, n) + kernels.gen_datafits(rng, n // 4, transcendental=True)
             if "lipschitz" in c[0] or "raw_hessian" in c[0]]
    r = tvlib.run_cases(cases, ["Gen.SparseOps", "Gen.DfSingle"], "C09", shard=40, jobs=16)
    return dict(cases=len(cases), bad=r["bad"][:10], errors=r["errors"], distribution=dict(cases=len(cases)),
                distinct_nontrivial=len({c[0] for c in cases}), samples=[dict(case=c[0][:300]) for c in cases[:2]])


def oracle(tier, rng, deep=False):
    failures, samples = [], []
    ev = nontriv = 0
    nrep = 4 if tier == "quick" and not deep else (12 if tier == "quick" else 25)   # quick + broken obligation: 3x the quick search
    for _ in range(nrep):
        for name, make, ygen, params in datafit_instances(rng):
            n, p = rng.randint(4, 8), rng.randint(1, 4)
            scale = rng.choice([1.0, 1e-3, 1e3])
            X = np.array([[rng.gauss(0, 1) * scale if rng.random() < 0.7 else 0.0 for _ in range(p)] for _ in range(n)])
            if rng.random() < 0.3:
                X[:, rng.randrange(p)] = 0.0
            if p > 1 and rng.random() < 0.3:
                X[:, 1] = X[:, 0]                      # rank deficient
            if rng.random() < 0.35:
                # structured designs: every column sums to zero (balanced +-1 contrasts, paired differences / incidence columns)
                scale = 1.0
                X = np.zeros((n, p))
                for j in range(p):
                    if rng.random() < 0.5:
                        i, k = rng.sample(range(n), 2)
                        X[i, j], X[k, j] = 1.0, -1.0
                    else:
                        idx = rng.sample(range(n), 2 * (n // 2))
                        X[idx[: n // 2], j] = 1.0
                        X[idx[n // 2:], j] = -1.0
            y = ygen(rng, n)
            P = params(n)
            df = make(P)
            Xs = sparse.csc_matrix(X)
            D, IP, IX = Xs.data.astype(float), Xs.indptr.astype(np.int32), Xs.indices.astype(np.int32)
            inp = dict(datafit=name, X=X.tolist(), y=np.asarray(y).tolist(), params={k: np.asarray(v).tolist() for k, v in P.items()})
            try:
                if hasattr(df, "initialize"):
                    df.initialize(np.asfortranarray(X), y)

                def curv(direction, z, h):
                    f = lambda t: doc_loss(name, P, y, z + t * direction)
                    return (f(h) - 2 * f(0.0) + f(-h)) / (h * h)
                pts = [np.array([rng.gauss(0, 0.5 / scale if name not in ("Quadratic", "WeightedQuadratic", "Huber") else 1.0) for _ in range(p)]) for _ in range(3)]
                if hasattr(df, "get_lipschitz"):
                    L = np.asarray(df.get_lipschitz(np.asfortranarray(X), y), dtype=float)
                    ev += 1
                    for j in range(p):
                        nj = np.linalg.norm(X[:, j])
                        if nj == 0:
                            if L[j] != 0:
                                failures.append(dict(site=f"zero-column-constant:{name}", input=inp, observed=float(L[j])))
                            continue
                        nontriv += 1
                        for w in pts:
                            c = curv(X[:, j], X @ w, 1e-3 * max(1.0, np.max(np.abs(X @ w))) / np.max(np.abs(X[:, j])))
                            if c > L[j] * (1 + 1e-3):
                                failures.append(dict(site=f"coordinate-constant-too-small:{name}", input=dict(inp, j=j, w=w.tolist()), observed=float(L[j]), expected=float(c)))
                                break
                    if hasattr(df, "get_lipschitz_sparse"):
                        Ls = np.asarray(df.get_lipschitz_sparse(D, IP, IX, y), dtype=float)
                        ev += 1
                        if not np.allclose(Ls, L, rtol=1e-10, atol=0):
                            failures.append(dict(site=f"sparse-constant-differs:{name}", input=inp, observed=Ls.tolist(), expected=L.tolist()))
                if hasattr(df, "get_global_lipschitz") and np.any(X):
                    G = float(df.get_global_lipschitz(np.asfortranarray(X), y))
                    ev += 1
                    nontriv += 1
                    for _ in range(6):
                        d = np.array([rng.gauss(0, 1) for _ in range(p)])
                        d /= np.linalg.norm(d)
                        Xd = X @ d
                        if not np.any(Xd):
                            continue
                        for w in pts:
                            c = curv(Xd, X @ w, 1e-3 * max(1.0, np.max(np.abs(X @ w))) / np.max(np.abs(Xd)))
                            if c > G * (1 + 1e-3):
                                failures.append(dict(site=f"global-constant-too-small:{name}", input=dict(inp, d=d.tolist(), w=w.tolist()), observed=G, expected=float(c)))
                                break
                    if hasattr(df, "get_global_lipschitz_sparse"):
                        Gs = float(df.get_global_lipschitz_sparse(D, IP, IX, y))
                        ev += 1
                        if Gs > G * (1 + 1e-6) or (scale == 1.0 and Gs < G * (1 - 5e-2)):
                            failures.append(dict(site=f"sparse-global-constant:{name}", input=inp, observed=Gs, expected=G))
                if hasattr(df, "raw_hessian"):
                    w = pts[0]
                    z = X @ w
                    H = np.asarray(df.raw_hessian(y, z), dtype=float)
                    ev += 1
                    hd = np.array([curv(np.eye(n)[i], z, 1e-3 * max(1.0, np.max(np.abs(z)))) for i in range(n)])
                    if name in ("Cox", "CoxEfron"):
                        ok = np.all(H >= hd - 1e-5 * (1 + np.abs(hd)))
                    else:
                        ok = np.allclose(H, hd, rtol=2e-3, atol=1e-6 * max(1.0, float(np.max(np.abs(H)))))
                    if not ok:
                        failures.append(dict(site=f"raw_hessian:{name}", input=dict(inp, w=w.tolist()), observed=H.tolist(), expected=hd.tolist()))
            except Exception as e:
                failures.append(dict(site=f"raises:{name}", input=inp, observed=repr(e)[:300]))
    return dict(evaluations=ev, distinct_nontrivial=nontriv, failures=failures, samples=[dict(constants_checked=ev)])


def replay(payload):
    f = payload.get("failure")
    if not f:
        return dict(fails=False, note="unchecked obligation: " + "; ".join(b.get("what", "") for b in payload.get("broken", [])))
    res = oracle("thorough", random.Random(payload.get("seed", 0) + 1), deep=True)
    same = [x for x in res["failures"] if x["site"] == f["site"]]
    return dict(fails=bool(same), site=f["site"], reproduced=same[:1])
