"""Run compositions (JSON list on stdin) and print one JSON result per line; used with NUMBA_BOUNDSCHECK=1."""
import sys, json, os
sys.path.insert(0, os.path.dirname(os.path.abspath(__file__)))
sys.path.insert(0, os.environ.get("SKGLM_REPO", "/repo"))
import compos
specs = json.load(sys.stdin)
for spec, sp in specs:
    try:
        out = compos.run_composition(spec, sp)
        print(json.dumps(dict(ok=True, out=out)), flush=True)
    except Exception as e:
        print(json.dumps(dict(ok=False, exc=type(e).__name__, msg=str(e)[:300])), flush=True)
