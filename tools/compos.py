"""A menu of accepted solver x datafit x penalty compositions on small problems, shared by C10 / C13 / C19 / C20.
run_composition(spec) -> dict(w=..., b=..., stop=..., objs=...) or raises."""
import numpy as np
from scipy import sparse
import solverlib as sl


def menu(rng, degenerate=None):
    """yields composition specs (plain dicts, JSON-able) on a freshly drawn problem"""
    specs = []
    for sname, dname, pk in [
        ("AndersonCD", "Quadratic", "L1"), ("AndersonCD", "Quadratic", "MCPenalty"), ("AndersonCD", "Quadratic", "WeightedL1"),
        ("AndersonCD", "Logistic", "L1_plus_L2"), ("AndersonCD", "Huber", "L1"), ("AndersonCD", "WeightedQuadratic", "WeightedMCPenalty"),
        ("AndersonCD", "Quadratic", "SCAD"), ("ProxNewton", "Logistic", "L1"), ("ProxNewton", "Poisson", "WeightedL1"),
        ("ProxNewton", "Gamma", "L1_plus_L2"), ("GramCD", "Quadratic", "L1"), ("GramCD", "Quadratic", "MCPenalty"),
        ("FISTA", "Quadratic", "L1"), ("FISTA", "Logistic", "L1_plus_L2"),
        ("GroupBCD", "Quadratic", "WeightedGroupL2"), ("GroupBCD", "Logistic", "WeightedGroupL2"),
        ("GroupProxNewton", "Logistic", "WeightedGroupL2"), ("MultiTaskBCD", "QuadraticMultiTask", "L2_1"),
        ("GroupBCD", "Quadratic", "WeightedL1GroupL2"),
    ]:
        ykind = {"Quadratic": "real", "WeightedQuadratic": "real", "Huber": "real", "Logistic": "sign", "Poisson": "count", "Gamma": "pos",
                 "QuadraticMultiTask": "real"}[dname]
        n, p = rng.randint(5, 9), rng.randint(2, 6)
        X, y = sl.make_problem(rng, n=n, p=p, kind=ykind)
        spec = dict(solver=sname, datafit=dname, penalty=pk, fit_intercept=bool(rng.random() < 0.5 and sname not in ("GramCD", "FISTA")),
                    ws_strategy=rng.choice(["subdiff", "fixpoint"]) if pk != "WeightedL1GroupL2" else "fixpoint", positive=bool(rng.random() < 0.2 and pk in ("L1", "WeightedL1", "L1_plus_L2", "MCPenalty", "WeightedGroupL2")),
                    seed=rng.randrange(10 ** 6), alpha_frac=rng.choice([0.05, 0.3]), tol=1e-8)
        if degenerate:
            X, y = degenerate(rng, X, y, ykind)
        spec["X"], spec["y"] = X.tolist(), y.tolist()
        if dname == "QuadraticMultiTask":
            T = rng.randint(1, 3)
            spec["Y"] = (np.outer(y, np.ones(T)) + np.array([[rng.gauss(0, 0.3) for _ in range(T)] for _ in range(len(y))])).tolist()
        specs.append(spec)
        if sname == "MultiTaskBCD" or (sname == "GroupBCD" and pk == "WeightedGroupL2" and dname == "Quadratic"):
            # a second instance where the working set stays smaller than the problem and the inner loop reaches its every-10-epochs
            # check: many correlated features, p0 = 1, fix-point scores
            n2, p2 = rng.randint(8, 12), rng.randint(10, 14)
            X2, y2 = sl.make_problem(rng, n=n2, p=p2, kind="real")
            X2[:, 1:] = X2[:, 1:] + 0.8 * X2[:, :1]
            spec2 = dict(spec, ws_strategy="fixpoint", p0=1, seed=rng.randrange(10 ** 6), alpha_frac=0.02, tol=1e-12)
            spec2["X"], spec2["y"] = X2.tolist(), y2.tolist()
            if dname == "QuadraticMultiTask":
                T2 = rng.randint(2, 3)
                spec2["Y"] = (np.outer(y2, np.ones(T2)) + np.array([[rng.gauss(0, 0.5) for _ in range(T2)] for _ in range(n2)]) + X2[:, :T2]).tolist()
            specs.append(spec2)
    return specs


def csc_with_explicit_zeros(X, explicit):
    """CSC copy of X; when `explicit`, every all-zero column keeps two STORED entries whose value is 0.0 (what zeroing a
    column of a CSC matrix in place, or masking without eliminate_zeros(), leaves behind): same matrix, legitimate input"""
    X = np.asarray(X, dtype=float)
    zc = [j for j in range(X.shape[1]) if not np.any(X[:, j])] if explicit else []
    if not zc:
        return sparse.csc_matrix(X)
    tmp = X.copy()
    for j in zc:
        tmp[0, j] = 1.0
        tmp[-1, j] = 1.0
    Xs = sparse.csc_matrix(tmp)
    for j in zc:
        Xs.data[Xs.indptr[j]:Xs.indptr[j + 1]] = 0.0
    return Xs


def build(spec, sparse_X=False):
    import random
    import skglm.datafits as sd, skglm.penalties as sp, skglm.solvers as ss
    rng = random.Random(spec["seed"])
    X = np.asfortranarray(np.array(spec["X"], dtype=float))
    y = np.array(spec["y"], dtype=float)
    n, p = X.shape
    fi = spec["fit_intercept"]
    dname, pk, sname = spec["datafit"], spec["penalty"], spec["solver"]
    grp_ptr, grp_indices = sl.make_groups(rng, p)
    ng = len(grp_ptr) - 1
    DP = {}
    if dname == "WeightedQuadratic":
        DP = dict(sample_weights=np.array([rng.choice([0.5, 1.0, 2.0]) for _ in range(n)]))
    if dname == "Huber":
        DP = dict(delta=1.0)
    if dname == "QuadraticMultiTask":
        Y = np.asfortranarray(np.array(spec["Y"], dtype=float))
        amax = float(np.max(np.linalg.norm(X.T @ (Y - Y.mean(axis=0) if fi else Y), axis=1))) / n
        df = sd.QuadraticMultiTask()
        pen, PP = sp.L2_1(max(amax, 1e-12) * spec["alpha_frac"]), dict(alpha=max(amax, 1e-12) * spec["alpha_frac"])
        target = Y
    else:
        target = y
        base = dname if dname in sl.DATAFITS else "Quadratic"
        if pk in ("WeightedGroupL2", "WeightedL1GroupL2"):
            df = sd.QuadraticGroup(grp_ptr, grp_indices) if dname == "Quadratic" else sd.LogisticGroup(grp_ptr, grp_indices)
        else:
            df = sl.DATAFITS[dname][0](DP)
        try:
            amax, _ = sl.alpha_max(base, DP, X, y, fi)
        except Exception:
            amax = 1.0
        if not np.isfinite(amax) or amax <= 0:
            amax = 1.0
        alpha = amax * spec["alpha_frac"]
        if pk == "WeightedL1GroupL2":
            weights = np.array([rng.choice([0.5, 1.0, 2.0]) for _ in range(ng)])
            wfeat = np.array([rng.choice([0.0, 0.5, 1.0]) for _ in range(p)])
            pen, PP = sp.WeightedL1GroupL2(alpha * 0.5, weights, wfeat, grp_ptr, grp_indices), dict(alpha=alpha * 0.5, weights_groups=weights, weights_features=wfeat, grp_ptr=grp_ptr, grp_indices=grp_indices)
        elif pk == "WeightedGroupL2":
            weights = np.array([rng.choice([0.5, 1.0, 2.0]) for _ in range(ng)])
            pen, PP = sp.WeightedGroupL2(alpha, weights, grp_ptr, grp_indices, spec["positive"]), dict(alpha=alpha, weights=weights, grp_ptr=grp_ptr, grp_indices=grp_indices, positive=spec["positive"])
        else:
            pen, PP = sl.make_penalty(pk, rng, p, alpha, spec["positive"])
    knobs = dict(tol=spec["tol"])
    if sname in ("AndersonCD", "GroupBCD", "MultiTaskBCD"):
        knobs.update(max_iter=30, max_epochs=200, p0=spec.get("p0", rng.choice([1, 10])), fit_intercept=fi, ws_strategy=spec["ws_strategy"])
    elif sname in ("ProxNewton",):
        knobs.update(max_iter=20, p0=rng.choice([1, 10]), fit_intercept=fi, ws_strategy=spec["ws_strategy"])
    elif sname == "GroupProxNewton":
        knobs.update(max_iter=20, p0=rng.choice([1, 10]), fit_intercept=fi)
    elif sname == "GramCD":
        knobs.update(max_iter=300, use_acc=bool(spec["seed"] % 2), greedy_cd=bool(spec["seed"] % 3 == 0), fit_intercept=False)
    else:
        knobs.update(max_iter=300)
    solver = getattr(ss, sname)(**knobs)
    Xin = csc_with_explicit_zeros(X, spec.get("seed", 0) % 2 == 0) if sparse_X else X
    return solver, Xin, target, df, pen, DP, PP, fi


def run_composition(spec, sparse_X=False, warm=False):
    """warm=True: start from a dense random point (non-zero on every column, all-zero ones included) with its consistent model fit"""
    solver, Xin, target, df, pen, DP, PP, fi = build(spec, sparse_X)
    sname = spec["solver"]
    w_init = Xw_init = None
    if warm:
        import random
        r2 = random.Random(spec["seed"] + 17)
        Xd = np.array(spec["X"], dtype=float)
        p_ = Xd.shape[1]
        tgt = np.asarray(target)
        # coefficients scaled to the columns (the model fit stays O(1) whatever the feature scales); all-zero columns get O(1) values
        cs = np.array([np.linalg.norm(Xd[:, j]) / np.sqrt(Xd.shape[0]) for j in range(p_)])
        cs = np.where(cs > 0, cs, 1.0)
        if tgt.ndim == 2:
            w_init = np.array([[r2.choice([-1.0, 0.5, 0.75]) for _ in range(tgt.shape[1])] for _ in range(p_ + fi)])
            w_init[:p_] = w_init[:p_] / cs[:, None]
            Xw_init = np.asfortranarray(Xd @ w_init[:p_] + (w_init[-1] if fi else 0.0))
        else:
            w_init = np.array([r2.choice([-1.0, 0.5, 0.75]) for _ in range(p_ + fi)])
            if spec.get("positive") or spec["penalty"] in ("IndicatorBox", "PositiveConstraint"):
                w_init[:p_] = np.abs(w_init[:p_])
            w_init[:p_] = w_init[:p_] / cs
            Xw_init = Xd @ w_init[:p_] + (w_init[-1] if fi else 0.0)
    dfc = None if sname == "GramCD" else sl.cc(df)
    if dfc is not None and sname in ("ProxNewton", "FISTA", "GroupProxNewton") and hasattr(dfc, "initialize"):
        if sparse_X and hasattr(dfc, "initialize_sparse"):
            dfc.initialize_sparse(Xin.data, Xin.indptr, Xin.indices, target)
        else:
            dfc.initialize(Xin if not sparse_X else np.asarray(Xin.todense()), target)
    if warm:
        w, objs, stop = solver.solve(Xin, target, dfc, sl.cc(pen), w_init, Xw_init)
    else:
        w, objs, stop = solver.solve(Xin, target, dfc, sl.cc(pen))
    return dict(w=np.asarray(w, dtype=float).tolist(), objs=np.asarray(objs, dtype=float).tolist(), stop=float(stop))
