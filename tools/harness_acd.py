"""Correspondence A for AndersonCD: the REAL AndersonCD._solve / path code runs against mock datafit /
penalty objects and replaced module-level kernels (same dyadic semantics as coq/Skel/MockACD.v); the
Gallina skeleton Skel/AndersonCD.v is evaluated on the same mock by vm_compute and must agree on the
returned w, the caller's Xw buffer, every obj_out entry, stop_crit and the counts of outer iterations,
epochs and accepted extrapolations."""
import math, random
import numpy as np
from scipy import sparse
from tvlib import q, z, b, vq, vz, xq, lst

ACC_K = 2


class Mock:
    def __init__(self, rng, p):
        D = [k / 4 for k in range(-8, 9)]
        self.p = p
        self.T = [rng.choice(D) for _ in range(p)]
        self.a = [rng.choice([0.25, 0.5, 1.0, 2.0]) for _ in range(p)]
        self.lip = [rng.choice([0.0, 0.5, 1.0, 2.0]) for _ in range(p)]
        self.pen = [rng.random() < 0.8 for _ in range(p)]
        self.alpha = rng.choice([0.0, 0.25, 0.5, 1.0])
        self.B = rng.choice(D)
        self.positive = rng.random() < 0.3
        self.thr = rng.choice([0.0, 0.125, 0.5])
        self.counts = dict(epochs=0, accepts=0)

    def coq(self):
        return ("{| m_T := %s; m_a := %s; m_lip := %s; m_pen := %s; m_alpha := %s; m_B := %s; m_positive := %s; "
                "m_thr := %s; m_accK := %d |}" % (vq(self.T), vq(self.a), vq(self.lip), lst([b(x) for x in self.pen]),
                                                 q(self.alpha), q(self.B), b(self.positive), q(self.thr), ACC_K))

    # ---- mock semantics (mirrors MockACD.v)
    def g_at(self, Xw, j):
        # feature j is carried by sample j mod n_samples (n_samples may differ from n_features)
        return (Xw[j % len(Xw)] - self.T[j]) * self.a[j]

    def epoch(self, w, Xw, ws):
        self.counts["epochs"] += 1
        for j in ws:
            old = w[j]
            v0 = (old + self.T[j]) / 2
            v = 0.0 if abs(v0) < self.thr else (0.0 if (self.positive and v0 < 0) else v0)
            w[j] = v
            Xw[j % len(Xw)] += v - old


class MockDatafit:
    def __init__(self, M): self.M = M
    def initialize(self, X, y): pass
    def initialize_sparse(self, *a): pass
    def get_lipschitz(self, X, y): return np.array(self.M.lip, dtype=float)
    def get_lipschitz_sparse(self, *a): return np.array(self.M.lip, dtype=float)
    def full_grad_sparse(self, data, indptr, indices, y, Xw):
        return np.array([self.M.g_at(Xw, j) for j in range(self.M.p)])
    def value(self, y, w, Xw):
        return sum((Xw[j % len(Xw)] - self.M.T[j]) ** 2 * self.M.a[j] / 2 for j in range(len(w)))
    def intercept_update_step(self, y, Xw): return (Xw[0] - self.M.B) / 2
    def gradient_scalar(self, *a): raise AssertionError("kernel should be mocked")


class MockPenalty:
    def __init__(self, M): self.M = M
    def is_penalized(self, n): return np.array(self.M.pen, dtype=bool)
    def generalized_support(self, w): return np.asarray(w) != 0
    def value(self, w):
        if self.M.positive and np.any(np.asarray(w) < 0):
            return np.inf
        return self.M.alpha * float(np.sum(np.abs(w)))
    def subdiff_distance(self, w, grad, ws):
        out = np.zeros(len(ws))
        for idx, j in enumerate(ws):
            g = grad[idx]
            if self.M.positive and w[j] < 0:
                out[idx] = np.inf
            elif w[j] == 0:
                out[idx] = 0.0 if abs(g) < self.M.alpha else abs(g) - self.M.alpha
            else:
                out[idx] = abs(g)
        return out
    def prox_1d(self, *a): raise AssertionError("kernel should be mocked")


class MockAccel:
    def __init__(self, K):
        self.cnt, self.hist = 0, []
    def extrapolate(self, w, Xw):
        if self.cnt <= ACC_K:
            self.hist.insert(0, (np.array(w, dtype=float), np.array(Xw, dtype=float)))
            self.cnt += 1
            return w, Xw, False
        self.cnt = 0
        if len(self.hist) >= 2:
            (w1, x1), (w0, x0) = self.hist[0], self.hist[1]
            return 2 * w1 - w0, 2 * x1 - x0, True
        return w, Xw, False


class NpProxy:
    """numpy with a deterministic argpartition (ties towards larger index, ascending output)"""
    def __getattr__(self, k): return getattr(np, k)
    @staticmethod
    def argpartition(opt, kth):
        k = -kth
        order = sorted(range(len(opt)), key=lambda i: (opt[i], i), reverse=True)[:k]
        return np.array(sorted(order), dtype=np.int64)


def run_real(M, cfg, w_init, Xw_init, sparse_X, n=None):
    import skglm.solvers.anderson_cd as acd
    saved = {k: getattr(acd, k) for k in ("_cd_epoch", "_cd_epoch_sparse", "construct_grad", "construct_grad_sparse",
                                          "dist_fix_point_cd", "AndersonAcceleration", "np")}
    accepts = [0]

    def epoch_dense(X, y, w, Xw, lc, datafit, penalty, ws): M.epoch(w, Xw, ws)
    def epoch_sparse(d, ip, ix, y, w, Xw, lc, datafit, penalty, ws): M.epoch(w, Xw, ws)
    def cgrad(X, y, w, Xw, datafit, ws): return np.array([M.g_at(Xw, j) for j in ws])
    def cgrad_s(d, ip, ix, y, w, Xw, datafit, ws): return np.array([M.g_at(Xw, j) for j in ws])
    def fixp(w, grad, lip_ws, datafit, penalty, ws):
        return np.array([abs(grad[idx]) * lip_ws[idx] for idx, j in enumerate(ws)])
    try:
        acd._cd_epoch, acd._cd_epoch_sparse = epoch_dense, epoch_sparse
        acd.construct_grad, acd.construct_grad_sparse, acd.dist_fix_point_cd = cgrad, cgrad_s, fixp
        acd.AndersonAcceleration, acd.np = MockAccel, NpProxy()
        p = M.p
        n = p if n is None else n
        X = np.zeros((n, p))
        if sparse_X:
            X = sparse.csc_matrix(X)
        solver = acd.AndersonCD(max_iter=cfg["max_iter"], max_epochs=cfg["max_epochs"], p0=cfg["p0"], tol=cfg["tol"],
                                ws_strategy="fixpoint" if cfg["fixpoint"] else "subdiff",
                                fit_intercept=cfg["fit_intercept"])
        w0 = None if w_init is None else np.array(w_init, dtype=float)
        x0 = None if Xw_init is None else np.array(Xw_init, dtype=float)
        # count accepted extrapolations: acceptance is `w[:] = w_acc`; observe through the objective comparison
        df, pen = MockDatafit(M), MockPenalty(M)
        M.counts = dict(epochs=0, accepts=0)
        try:
            w, obj, stop = solver._solve(X, np.zeros(n), df, pen, w0, x0)
        except (ValueError, IndexError, TypeError, AttributeError, ZeroDivisionError) as e:
            return dict(err=True, exc=repr(e))
        Xw_buf = x0 if x0 is not None else None
        return dict(err=False, w=list(map(float, w)), Xw=None if Xw_buf is None else list(map(float, Xw_buf)),
                    obj=list(map(float, obj)), stop=float(stop), iters=len(obj), epochs=M.counts["epochs"],
                    same_w_buffer=(w0 is None or w is w0))
    finally:
        for k, v in saved.items():
            setattr(acd, k, v)


def cap_budget(cfg, H=22):
    """The mock kernels move every coefficient half-way to its target per epoch, so after k epochs the distance carries k more
    bits and the objective (its square) 2k more: past ~24 epochs in total binary64 rounds where the exact model does not, and the
    strict comparisons of the solver (p_obj_acc < p_obj, score < 0.3 * stop_crit) may then go either way.  That is a property of
    the correspondence, not of the solver: keep max_iter * max_epochs <= H so that the float run is exact."""
    while cfg["max_iter"] > 1 and cfg["max_iter"] * cfg["max_epochs"] > H:
        cfg["max_iter"] -= 1
    return cfg


def gen_case(rng):
    p = rng.randint(1, 5)
    n = p if rng.random() < 0.4 else rng.choice([rng.randint(1, p + 2), rng.randint(1, p)])   # n_samples != n_features in most runs (n < p often)
    M = Mock(rng, p)
    fi = rng.random() < 0.5
    cfg = dict(max_iter=rng.choice([0, 1, 1, 2, 3]), max_epochs=rng.choice([0, 1, 3, 4, 7, 10, 11, 12]),
               p0=rng.choice([1, 2, 10]), tol=rng.choice([0.0, 2 ** -10, 0.125, 0.5]), fixpoint=rng.random() < 0.35,
               fit_intercept=fi)
    cap_budget(cfg)
    D = [k / 4 for k in range(-6, 7)]
    r = rng.random()
    if r < 0.35:
        w_init = Xw_init = None
    else:
        dense_start = rng.random() < 0.3                              # dense warm start: support larger than p0
        w_init = [rng.choice(D if dense_start else D + [0.0] * 6) for _ in range(p + fi)]
        if r < 0.45:
            w_init = w_init[:-1] if len(w_init) > 1 else w_init + [0.0]         # malformed length
        bb = w_init[-1] if fi else 0.0
        Xw_init = [sum(w_init[j] for j in range(p) if j % n == i and j < len(w_init)) + bb for i in range(n)]   # consistent model fit
        if rng.random() < 0.15:
            Xw_init = [rng.choice(D) for _ in range(n)]                             # inconsistent start (still legal input)
    return M, cfg, w_init, Xw_init, rng.random() < 0.4, n


def coq_case(M, cfg, w_init, Xw_init, obs, n=None):
    cfgc = ("{| max_iter := %d; max_epochs := %d; p0 := %s; tol := %s; fixpoint := %s; fit_intercept := %s; "
            "n_features := %d; n_samples := %d |}" % (cfg["max_iter"], cfg["max_epochs"], z(cfg["p0"]), q(cfg["tol"]),
                                                      b(cfg["fixpoint"]), b(cfg["fit_intercept"]), M.p, M.p if n is None else n))
    wi = "None" if w_init is None else f"(Some {vq(w_init)})"
    xi = "None" if Xw_init is None else f"(Some {vq(Xw_init)})"
    expr = f"solve {cfgc} (mock_kernels {M.coq()}) {wi} {xi}"
    if obs["err"]:
        o = "{| ob_err := true; ob_w := []; ob_Xw := []; ob_obj := []; ob_stop := XBad; ob_iters := 0; ob_epochs := 0; ob_accepts := 0 |}"
        return expr, o, False
    o = ("{| ob_err := false; ob_w := %s; ob_Xw := %s; ob_obj := %s; ob_stop := %s; ob_iters := %d; ob_epochs := %d; "
         "ob_accepts := 0 |}" % (vq(obs["w"]), vq(obs["Xw"]) if obs["Xw"] is not None else "[]",
                                 lst([xq(x) for x in obs["obj"]]), xq(obs["stop"]), obs["iters"], obs["epochs"]))
    return expr, o, obs["Xw"] is not None


def make_cases(rng, n):
    cases, dist = [], dict(err=0, iters={}, epochs_total=0, sparse=0, warm=0, fixpoint=0, intercept=0, n_ne_p=0)
    for k in range(n):
        M, cfg, w_init, Xw_init, sp, n = gen_case(rng)
        obs = run_real(M, cfg, w_init, Xw_init, sp, n)
        expr, o, has_buf = coq_case(M, cfg, w_init, Xw_init, obs, n)
        chk = "chk_run_buf" if has_buf else "chk_run_nobuf"
        label = f"acd#{k} n_samples={n} cfg={cfg} sparse={sp} w_init={w_init} Xw_init={Xw_init} T={M.T} a={M.a} lip={M.lip} pen={M.pen} alpha={M.alpha} B={M.B} pos={M.positive} thr={M.thr} -> {obs}"
        cases.append((label, expr, chk, o))
        if obs["err"]:
            dist["err"] += 1
        else:
            dist["iters"][obs["iters"]] = dist["iters"].get(obs["iters"], 0) + 1
            dist["epochs_total"] += obs["epochs"]
        dist["sparse"] += sp
        dist["n_ne_p"] += n != M.p
        dist["warm"] += w_init is not None
        dist["fixpoint"] += cfg["fixpoint"]
        dist["intercept"] += cfg["fit_intercept"]
    return cases, dist


# ------------------------------------------------------------------ path()
def run_real_path(M, cfg, alphas, w_init, sparse_X):
    import skglm.solvers.anderson_cd as acd
    saved = {k: getattr(acd, k) for k in ("_cd_epoch", "_cd_epoch_sparse", "construct_grad", "construct_grad_sparse",
                                          "dist_fix_point_cd", "AndersonAcceleration", "np")}

    def epoch_dense(X, y, w, Xw, lc, datafit, penalty, ws): M.epoch(w, Xw, ws)
    def epoch_sparse(d, ip, ix, y, w, Xw, lc, datafit, penalty, ws): M.epoch(w, Xw, ws)
    def cgrad(X, y, w, Xw, datafit, ws): return np.array([M.g_at(Xw, j) for j in ws])
    def cgrad_s(d, ip, ix, y, w, Xw, datafit, ws): return np.array([M.g_at(Xw, j) for j in ws])
    def fixp(w, grad, lip_ws, datafit, penalty, ws):
        return np.array([abs(grad[idx]) * lip_ws[idx] for idx, j in enumerate(ws)])

    class PathPenalty(MockPenalty):
        @property
        def alpha(self): return self.M.alpha
        @alpha.setter
        def alpha(self, v): self.M.alpha = float(v)

    class PathDatafit(MockDatafit):
        def gradient_scalar_sparse(self, *a): raise AssertionError
    try:
        acd._cd_epoch, acd._cd_epoch_sparse = epoch_dense, epoch_sparse
        acd.construct_grad, acd.construct_grad_sparse, acd.dist_fix_point_cd = cgrad, cgrad_s, fixp
        acd.AndersonAcceleration, acd.np = MockAccel, NpProxy()
        p = M.p
        X = np.eye(p)
        if sparse_X:
            X = sparse.csc_matrix(X)
        solver = acd.AndersonCD(max_iter=cfg["max_iter"], max_epochs=cfg["max_epochs"], p0=cfg["p0"], tol=cfg["tol"],
                                ws_strategy="fixpoint" if cfg["fixpoint"] else "subdiff", fit_intercept=cfg["fit_intercept"])
        a0 = M.alpha
        try:
            res = solver.path(X, np.zeros(p), PathDatafit(M), PathPenalty(M), alphas=np.array(alphas),
                              w_init=None if w_init is None else np.array(w_init, dtype=float))
        except (ValueError, IndexError, TypeError, AttributeError, ZeroDivisionError) as e:
            return None
        finally:
            M.alpha = a0
        _, coefs, stops = res
        return [(list(map(float, coefs[:, t])), float(stops[t])) for t in range(len(alphas))]
    finally:
        for k, v in saved.items():
            setattr(acd, k, v)


def make_path_cases(rng, n):
    cases = []
    for k in range(n):
        p = rng.randint(1, 4)
        M = Mock(rng, p)
        fi = rng.random() < 0.5
        cfg = dict(max_iter=rng.choice([1, 2, 3]), max_epochs=rng.choice([1, 3, 4, 7]), p0=rng.choice([1, 2, 10]),
                   tol=rng.choice([0.0, 2 ** -10, 0.125]), fixpoint=rng.random() < 0.35, fit_intercept=fi)
        alphas = [rng.choice([0.0, 0.25, 0.5, 1.0, 2.0]) for _ in range(rng.randint(1, 4))]      # any order, repeats allowed
        cap_budget(cfg, H=max(7, 24 // len(alphas)))                                         # warm starts chain the halvings
        D = [j / 4 for j in range(-6, 7)]
        w_init = None
        if rng.random() < 0.5:
            w_init = [rng.choice(D + [0.0, 0.0, 0.0]) for _ in range(p + fi)]
            if rng.random() < 0.3:
                w_init = [0.0] * p + ([rng.choice([0.5, -1.0, 2.0])] if fi else [])      # empty support, non-zero intercept
        obs = run_real_path(M, cfg, alphas, w_init, rng.random() < 0.4)
        bb = (w_init[-1] if (w_init is not None and fi) else 0.0)
        w0 = w_init if w_init is not None else [0.0] * (p + fi)
        Xw0 = [w0[j] + bb for j in range(p)]
        cfgc = ("{| max_iter := %d; max_epochs := %d; p0 := %s; tol := %s; fixpoint := %s; fit_intercept := %s; "
                "n_features := %d; n_samples := %d |}" % (cfg["max_iter"], cfg["max_epochs"], z(cfg["p0"]), q(cfg["tol"]),
                                                          b(cfg["fixpoint"]), b(cfg["fit_intercept"]), M.p, M.p))
        expr = f"mock_path {cfgc} {M.coq()} {vq(alphas)} {vq(w0)} {vq(Xw0)}"
        exp = "None" if obs is None else "(Some " + lst([f"({vq(w)}, {xq(s)})" for w, s in obs]) + ")"
        cases.append((f"path#{k} cfg={cfg} alphas={alphas} w_init={w_init} T={M.T} a={M.a} lip={M.lip} pen={M.pen} B={M.B} pos={M.positive} thr={M.thr} -> {obs}",
                      expr, "chk_path", exp))
    return cases
