"""Translation validation (DESIGN 1.4): for each translated kernel, inputs on a dyadic grid (values
hit thresholds exactly and at +-1/8), the REAL compiled object vs the QNum evaluation of the generated
Gallina.  Each `gen_*` returns a list of (label, model_expr, checker, expected)."""
import itertools, math, random
import numpy as np
from tvlib import q, z, b, vq, vz, xq, xvec, xvb, xbool, call_impl, mat

VALS = [k / 8 for k in range(-24, 25)]                     # -3 .. 3 step 1/8
HYP = [0.25, 0.5, 1.0, 2.0]
STEPS = [0.25, 0.5, 1.0, 2.0]


def pick(rng, xs, k):
    xs = list(xs)
    return xs if len(xs) <= k else rng.sample(xs, k)


def _imp():
    import skglm.utils.prox_funcs as pf
    import skglm.penalties.separable as sep
    from skglm.utils.jit_compilation import compiled_clone
    return pf, sep, compiled_clone


# ------------------------------------------------------------------ prox_funcs
def gen_prox_funcs(rng, n):
    pf, sep, cc = _imp()
    cases = []
    grid = list(itertools.product(VALS, [0.0, 0.125, 0.5, 1.0, 2.5], [False, True]))
    for x, u, pos in pick(rng, grid, n):
        r = call_impl(pf.ST, x, u, pos)
        cases.append((f"ST({x},{u},{pos})", f"ST {q(x)} {q(u)} {b(pos)}", "chk_F", xq(r)))
    grid = list(itertools.product(VALS, [-1.0, 0.0, 0.5], [0.5, 1.0, 2.0]))
    for x, lo, up in pick(rng, grid, n // 2):
        r = call_impl(pf.box_proj, x, lo, up)
        cases.append((f"box_proj({x},{lo},{up})", f"box_proj {q(x)} {q(lo)} {q(up)}", "chk_F", xq(r)))
    grid = list(itertools.product(VALS, STEPS, HYP, [1.5, 3.0, 4.0], [False, True], [1.0, 0.5, 2.0, 0.0]))
    for x, s, a, g, pos, wt in pick(rng, grid, 2 * n):
        r = call_impl(pf.prox_MCP, x, s, a, g, pos, wt)
        cases.append((f"prox_MCP({x},{s},{a},{g},{pos},{wt})",
                      f"prox_MCP {q(x)} {q(s)} {q(a)} {q(g)} {b(pos)} {q(wt)}", "chk_F", xq(r)))
    grid = list(itertools.product(VALS, [0.25, 0.5, 1.0], HYP, [2.5, 3.0, 4.0]))
    for x, s, a, g in pick(rng, grid, n):
        r = call_impl(pf.prox_SCAD, x, s, a, g)
        cases.append((f"prox_SCAD({x},{s},{a},{g})", f"prox_SCAD {q(x)} {q(s)} {q(a)} {q(g)}", "chk_F", xq(r)))
    for _ in range(n // 2):
        w = np.array([rng.choice(VALS) for _ in range(rng.randint(0, 5))])
        a, g = rng.choice(HYP), rng.choice([1.5, 3.0, 4.0])
        r = call_impl(pf.value_MCP, w, a, g)
        cases.append((f"value_MCP({list(w)},{a},{g})", f"value_MCP {vq(w)} {q(a)} {q(g)}", "chk_F", xq(r)))
        wts = np.array([rng.choice([0.0, 0.5, 1.0, 2.0]) for _ in w])
        r = call_impl(pf.value_weighted_MCP, w, a, g, wts)
        cases.append((f"value_weighted_MCP({list(w)},{a},{g},{list(wts)})",
                      f"value_weighted_MCP {vq(w)} {q(a)} {q(g)} {vq(wts)}", "chk_F", xq(r)))
        r = call_impl(pf.value_SCAD, w, a, g + 1)
        cases.append((f"value_SCAD({list(w)},{a},{g + 1})", f"value_SCAD {vq(w)} {q(a)} {q(g + 1)}", "chk_F", xq(r)))
    return cases


def gen_prox_transcendental(rng, n):
    pf, sep, cc = _imp()
    cases = []
    xs = [k / 4 for k in range(-12, 13)]
    for x, u in pick(rng, list(itertools.product(xs, [0.25, 0.5, 1.0])), n):
        r = call_impl(pf.prox_05, x, u)
        cases.append((f"prox_05({x},{u})", f"@prox_05 Q _ {q(x)} {q(u)}", "chk_F", xq(r)))
        r = call_impl(pf.prox_2_3, x, u)
        cases.append((f"prox_2_3({x},{u})", f"@prox_2_3 Q _ {q(x)} {q(u)}", "chk_F", xq(r)))
    for x, a, e in pick(rng, list(itertools.product(xs, [0.25, 1.0], [0.5, 1.0, 2.0])), n // 2):
        if math.sqrt(a) > e:
            continue          # bisection branch: 27 iterations of exp/log in Q are too slow for every run
        r = call_impl(pf.prox_log_sum, x, a, e)
        cases.append((f"prox_log_sum({x},{a},{e})", f"prox_log_sum {q(x)} {q(a)} {q(e)}", "chk_F", xq(r)))
    return cases


# ------------------------------------------------------------------ separable penalties
def _pen_instances(rng, sep, p):
    wts = np.array([rng.choice([0.0, 0.5, 1.0, 2.0]) for _ in range(p)])
    a = rng.choice(HYP)
    g = rng.choice([1.5, 3.0, 4.0])
    rho = rng.choice([0.0, 0.25, 0.5, 1.0])
    pos = rng.random() < 0.5
    eps = rng.choice([1.0, 2.0, 4.0])
    return [
        ("L1", sep.L1(a, pos), f"{q(a)} {b(pos)}", dict(alpha=q(a), positive=b(pos))),
        ("L1_plus_L2", sep.L1_plus_L2(a, rho, pos), None, dict(alpha=q(a), l1_ratio=q(rho), positive=b(pos))),
        ("WeightedL1", sep.WeightedL1(a, wts, pos), None, dict(alpha=q(a), weights=vq(wts), positive=b(pos))),
        ("MCPenalty", sep.MCPenalty(a, g, pos), None, dict(alpha=q(a), gamma=q(g), positive=b(pos))),
        ("WeightedMCPenalty", sep.WeightedMCPenalty(a, g, wts, pos), None,
         dict(alpha=q(a), gamma=q(g), weights=vq(wts), positive=b(pos))),
        ("SCAD", sep.SCAD(a, g + 1), None, dict(alpha=q(a), gamma=q(g + 1))),
        ("IndicatorBox", sep.IndicatorBox(a), None, dict(alpha=q(a))),
        ("PositiveConstraint", sep.PositiveConstraint(), None, dict()),
        ("LogSumPenalty", sep.LogSumPenalty(a, eps), None, dict(alpha=q(a), eps=q(eps))),
        ("L0_5", sep.L0_5(a), None, dict(alpha=q(a))),
        ("L2_3", sep.L2_3(a), None, dict(alpha=q(a))),
    ]


def fields_of(manifest_sig, name, fd):
    """field arguments of generated function `name`, in the order the generator emitted them"""
    return " ".join(fd[f] for f in manifest_sig[name])


_SIG = None


def gen_sig():
    """name -> ordered list of self-fields each generated method takes (parsed from Gen/*.v)"""
    global _SIG
    if _SIG is None:
        import re, os, glob
        from tvlib import COQ
        _SIG = {}
        for f in glob.glob(os.path.join(COQ, "Gen", "*.v")):
            for m in re.finditer(r"^Definition (\w+) (.*?) : res", open(f).read(), re.M):
                _SIG[m.group(1)] = re.findall(r"\(self_(\w+) :", m.group(2))
    return _SIG


def gen_penalties(rng, n, transcendental=False):
    pf, sep, cc = _imp()
    sig = gen_sig()
    cases = []
    for _ in range(max(1, n // 40)):
        p = rng.randint(1, 5)
        for cname, inst, _, fd in _pen_instances(rng, sep, p):
            if (cname in ("LogSumPenalty", "L0_5", "L2_3")) != transcendental:
                continue
            obj = cc(inst)
            for _ in range(3):
                w = np.array([rng.choice([0.0, 0.0] + VALS[8:41]) for _ in range(p)])
                if cname == "IndicatorBox" and rng.random() < 0.5:
                    w = np.array([rng.choice([0.0, fd and float(inst.alpha), 0.125]) for _ in range(p)])
                k = rng.randint(1, p)
                ws = np.array(sorted(rng.sample(range(p), k)), dtype=np.int64)
                grad = np.array([rng.choice(VALS) for _ in range(k)])
                # value
                fn = f"{cname}_value"
                chk = "chk_E" if cname in ("IndicatorBox", "PositiveConstraint", "L1", "L1_plus_L2", "WeightedL1",
                                           "MCPenalty", "WeightedMCPenalty") else "chk_F"
                r = call_impl(obj.value, w)
                cases.append((f"{fn}({fd},{list(w)})", f"{fn} {fields_of(sig, fn, fd)} {vq(w)}", chk, xq(r)))
                # subdiff_distance
                fn = f"{cname}_subdiff_distance"
                r = call_impl(obj.subdiff_distance, w, grad, ws)
                cases.append((f"{fn}({fd},{list(w)},{list(grad)},{list(ws)})",
                              f"{fn} {fields_of(sig, fn, fd)} {vq(w)} {vq(grad)} {vz(ws)}", "chk_VE", xvec(r)))
                # prox_1d
                fn = f"{cname}_prox_1d"
                for _ in range(4):
                    x, s, j = rng.choice(VALS), rng.choice(STEPS), rng.randrange(p)
                    if cname == "SCAD" and s >= inst.gamma - 1:
                        s = 0.5
                    r = call_impl(obj.prox_1d, x, s, j)
                    cases.append((f"{fn}({fd},{x},{s},{j})",
                                  f"{fn} {fields_of(sig, fn, fd)} {q(x)} {q(s)} {z(j)}", "chk_F", xq(r)))
                # generalized_support / is_penalized
                fn = f"{cname}_generalized_support"
                r = call_impl(obj.generalized_support, w)
                cases.append((f"{fn}({fd},{list(w)})", f"{fn} {fields_of(sig, fn, fd)} {vq(w)}", "chk_VB",
                              xvb(None if r is None else [bool(t) for t in r])))
                fn = f"{cname}_is_penalized"
                r = call_impl(obj.is_penalized, p)
                cases.append((f"{fn}({fd},{p})", f"{fn} {fields_of(sig, fn, fd)} {z(p)}", "chk_VB",
                              xvb(None if r is None else [bool(t) for t in r])))
                if hasattr(obj, "alpha_max"):
                    fn = f"{cname}_alpha_max"
                    g0 = np.array([rng.choice(VALS) for _ in range(p)])
                    r = call_impl(obj.alpha_max, g0)
                    cases.append((f"{fn}({fd},{list(g0)})", f"{fn} {fields_of(sig, fn, fd)} {vq(g0)}", "chk_F", xq(r)))
    return cases


# ------------------------------------------------------------------ block penalties (rows / groups)
def mrows(W):
    from tvlib import lst
    return lst([vq(r) for r in W])


def gen_blocks(rng, n):
    import skglm.penalties.block_separable as bs
    pf, sep, cc = _imp()
    sig = gen_sig()
    cases = []
    for _ in range(max(1, n // 30)):
        # BST / ST_vec
        for _ in range(4):
            x = np.array([rng.choice(VALS) for _ in range(rng.randint(1, 4))])
            if rng.random() < 0.2:
                x = np.zeros_like(x)
            u = rng.choice([0.0, 0.5, 1.0, 2.5])
            pos = rng.random() < 0.5
            r = call_impl(pf.BST, x, u, pos)
            cases.append((f"BST({list(x)},{u},{pos})", f"BST {vq(x)} {q(u)} {b(pos)}", "chk_VF", xvec(r)))
            r = call_impl(pf.ST_vec, x, u)
            cases.append((f"ST_vec({list(x)},{u})", f"ST_vec {vq(x)} {q(u)}", "chk_VF", xvec(r)))
        a, g_ = rng.choice(HYP), rng.choice([2.5, 3.0, 4.0])
        T, p = rng.randint(1, 3), rng.randint(1, 4)
        for cname, inst, fd in [("L2_1", bs.L2_1(a), dict(alpha=q(a))),
                                ("BlockMCPenalty", bs.BlockMCPenalty(a, g_), dict(alpha=q(a), gamma=q(g_))),
                                ("BlockSCAD", bs.BlockSCAD(a, g_), dict(alpha=q(a), gamma=q(g_)))]:
            obj = cc(inst)
            # Pythagorean rows keep the norms rational: scale (3,4)/(5,12,..) patterns
            def row():
                base = rng.choice([[0.0] * T, [3.0, 4.0, 0.0][:T], [0.75, 1.0, 0.0][:T], [1.5, 2.0, 0.0][:T], [2.0] + [0.0] * (T - 1)])
                base = (base + [0.0] * T)[:T]
                return [rng.choice([-1, 1]) * v for v in base]
            W = np.array([row() for _ in range(p)])
            k = rng.randint(1, p)
            ws = np.array(sorted(rng.sample(range(p), k)), dtype=np.int64)
            grad = np.array([row() for _ in range(k)])
            fn = f"{cname}_value"
            r = call_impl(obj.value, W)
            cases.append((f"{fn}({fd},{W.tolist()})", f"{fn} {fields_of(sig, fn, fd)} {mrows(W)}", "chk_F", xq(r)))
            fn = f"{cname}_subdiff_distance"
            r = call_impl(obj.subdiff_distance, W, grad, ws)
            cases.append((f"{fn}({fd},{W.tolist()},{grad.tolist()},{list(ws)})",
                          f"{fn} {fields_of(sig, fn, fd)} {mrows(W)} {mrows(grad)} {vz(ws)}", "chk_VF", xvec(r)))
            fn = f"{cname}_prox_1feat"
            for _ in range(3):
                x = np.array(row())
                s = rng.choice([0.25, 0.5, 1.0])
                r = call_impl(obj.prox_1feat, x, s, 0)
                if r is not None and not np.all(np.isfinite(r)):
                    r = None
                cases.append((f"{fn}({fd},{list(x)},{s})", f"{fn} {fields_of(sig, fn, fd)} {vq(x)} {q(s)} {z(0)}",
                              "chk_VF", xvec(r)))
        # group penalties
        grp_ptr = np.array([0, 2, 5], dtype=np.int32)
        grp_indices = np.array([3, 0, 1, 4, 2], dtype=np.int32)
        wg = np.array([rng.choice([0.0, 0.5, 1.0, 2.0]) for _ in range(2)])     # a zero weight = unpenalised group
        wf = np.array([rng.choice([0.0, 0.5, 1.0, 2.0]) for _ in range(5)])
        pos = rng.random() < 0.5
        insts = [("WeightedGroupL2", bs.WeightedGroupL2(a, wg, grp_ptr, grp_indices, pos),
                  dict(alpha=q(a), weights=vq(wg), grp_ptr=vz(grp_ptr), grp_indices=vz(grp_indices), positive=b(pos))),
                 ("WeightedL1GroupL2", bs.WeightedL1GroupL2(a, wg, wf, grp_ptr, grp_indices),
                  dict(alpha=q(a), weights_groups=vq(wg), weights_features=vq(wf), grp_ptr=vz(grp_ptr),
                       grp_indices=vz(grp_indices)))]
        for cname, inst, fd in insts:
            obj = cc(inst)
            w = np.array([rng.choice([0.0, 0.0, 0.75, 1.0, -1.0, 3.0, 4.0, -0.75]) for _ in range(5)])
            if rng.random() < 0.3:
                w[grp_indices[0:2]] = 0
            fn = f"{cname}_value"
            r = call_impl(obj.value, w)
            cases.append((f"{fn}({fd},{list(w)})", f"{fn} {fields_of(sig, fn, fd)} {vq(w)}",
                          "chk_E" if cname == "WeightedGroupL2" else "chk_F", xq(r)))
            fn = f"{cname}_generalized_support"
            r = call_impl(obj.generalized_support, w)
            cases.append((f"{fn}({fd},{list(w)})", f"{fn} {fields_of(sig, fn, fd)} {vq(w)}", "chk_VB",
                          xvb(None if r is None else [bool(t) for t in r])))
            fn = f"{cname}_prox_1group"
            for g in (0, 1):
                k = int(grp_ptr[g + 1] - grp_ptr[g])
                x = np.array([rng.choice([0.0, 0.75, 1.0, -1.0, 3.0, 4.0, -3.0, 1.5, 2.0]) for _ in range(k)])
                s = rng.choice([0.25, 0.5, 1.0])
                r = call_impl(obj.prox_1group, x, s, g)
                if r is not None and not np.all(np.isfinite(r)):
                    r = None
                cases.append((f"{fn}({fd},{list(x)},{s},{g})", f"{fn} {fields_of(sig, fn, fd)} {vq(x)} {q(s)} {z(g)}",
                              "chk_VF", xvec(r)))
            if cname == "WeightedGroupL2":
                fn = f"{cname}_subdiff_distance"
                ws = np.array(rng.choice([[0], [1], [0, 1], [1, 0]]), dtype=np.int64)
                ng = int(sum(grp_ptr[g + 1] - grp_ptr[g] for g in ws))
                grad = np.array([rng.choice(VALS) for _ in range(ng)])
                r = call_impl(obj.subdiff_distance, w, grad, ws)
                cases.append((f"{fn}({fd},{list(w)},{list(grad)},{list(ws)})",
                              f"{fn} {fields_of(sig, fn, fd)} {vq(w)} {vq(grad)} {vz(ws)}", "chk_VE", xvec(r)))
    return cases


# ------------------------------------------------------------------ datafits (single task)
def csc_of(X):
    from scipy import sparse
    Xs = sparse.csc_matrix(X)
    return Xs.data.astype(float), Xs.indptr.astype(np.int64), Xs.indices.astype(np.int64)


def gen_datafits(rng, n, transcendental=False):
    import skglm.datafits.single_task as st
    pf, sep, cc = _imp()
    sig = gen_sig()
    cases = []
    small = [-2.0, -1.0, -0.5, 0.0, 0.0, 0.5, 1.0, 1.5, 2.0]
    for _ in range(max(1, n // 25)):
        ns, p = rng.randint(1, 4), rng.randint(1, 3)
        X = np.array([[rng.choice(small) for _ in range(p)] for _ in range(ns)])
        if rng.random() < 0.3:
            X[:, rng.randrange(p)] = 0.0
        y = np.array([rng.choice([-1.0, 1.0, 0.5, 2.0, 3.0]) for _ in range(ns)])
        w = np.array([rng.choice(small) for _ in range(p)])
        Xw = np.array([rng.choice(small) for _ in range(ns)])     # arbitrary point (consistency is not assumed)
        sw = np.array([rng.choice([0.5, 1.0, 2.0]) for _ in range(ns)])
        delta = rng.choice([0.5, 1.0, 2.0])
        data, indptr, indices = csc_of(X)
        insts = [("Quadratic", st.Quadratic(), {}, False), ("WeightedQuadratic", st.WeightedQuadratic(sw), dict(sample_weights=vq(sw)), False),
                 ("Huber", st.Huber(delta), dict(delta=q(delta)), False), ("QuadraticSVC", st.QuadraticSVC(), {}, False),
                 ("Logistic", st.Logistic(), {}, True), ("Poisson", st.Poisson(), {}, True), ("Gamma", st.Gamma(), {}, True)]
        for cname, inst, fd, trans in insts:
            if trans != transcendental:
                continue
            yy = y if cname not in ("Logistic",) else np.sign(y)
            if cname in ("Poisson", "Gamma"):
                yy = np.abs(y)
            obj = cc(inst)
            fdd = dict(fd)
            # cached attributes set by initialize
            if cname == "Quadratic":
                obj.initialize(X, yy)
                fdd["Xty"] = vq(obj.Xty)
                r = obj.Xty
                cases.append((f"Quadratic_initialize({X.tolist()},{list(yy)})", f"Quadratic_initialize {mat(X)} {vq(yy)}", "chk_VF", xvec(r)))
                obj2 = cc(st.Quadratic())
                obj2.initialize_sparse(data, indptr, indices, yy)
                cases.append((f"Quadratic_initialize_sparse({X.tolist()},{list(yy)})",
                              f"Quadratic_initialize_sparse {vq(data)} {vz(indptr)} {vz(indices)} {vq(yy)}", "chk_VF", xvec(obj2.Xty)))
            if cname == "WeightedQuadratic":
                obj.initialize(X, yy)
                fdd["Xtwy"] = vq(obj.Xtwy)
                cases.append((f"WeightedQuadratic_initialize({X.tolist()},{list(yy)},{list(sw)})",
                              f"WeightedQuadratic_initialize {fd['sample_weights']} {mat(X)} {vq(yy)}", "chk_VF", xvec(obj.Xtwy)))

            def add(meth, args_py, args_coq, chk, conv):
                fn = f"{cname}_{meth}"
                if fn not in sig or not hasattr(obj, meth):
                    return
                r = call_impl(getattr(obj, meth), *args_py)
                cases.append((f"{fn}({fdd},{[a.tolist() if hasattr(a, 'tolist') else a for a in args_py]})",
                              f"{fn} {fields_of(sig, fn, fdd)} {args_coq}", chk, conv(r)))
            add("value", (yy, w, Xw), f"{vq(yy)} {vq(w)} {vq(Xw)}", "chk_F", xq)
            add("raw_grad", (yy, Xw), f"{vq(yy)} {vq(Xw)}", "chk_VF", xvec)
            add("raw_hessian", (yy, Xw), f"{vq(yy)} {vq(Xw)}", "chk_VF", xvec)
            add("get_lipschitz", (X, yy), f"{mat(X)} {vq(yy)}", "chk_VF", xvec)
            add("get_lipschitz_sparse", (data, indptr, indices, yy), f"{vq(data)} {vz(indptr)} {vz(indices)} {vq(yy)}", "chk_VF", xvec)
            add("gradient", (X, yy, Xw), f"{mat(X)} {vq(yy)} {vq(Xw)}", "chk_VF", xvec)
            add("full_grad_sparse", (data, indptr, indices, yy, Xw), f"{vq(data)} {vz(indptr)} {vz(indices)} {vq(yy)} {vq(Xw)}", "chk_VF", xvec)
            add("gradient_sparse", (data, indptr, indices, yy, Xw), f"{vq(data)} {vz(indptr)} {vz(indices)} {vq(yy)} {vq(Xw)}", "chk_VF", xvec)
            add("intercept_update_step", (yy, Xw), f"{vq(yy)} {vq(Xw)}", "chk_F", xq)
            for j in range(p):
                add("gradient_scalar", (X, yy, w, Xw, j), f"{mat(X)} {vq(yy)} {vq(w)} {vq(Xw)} {z(j)}", "chk_F", xq)
                add("gradient_scalar_sparse", (data, indptr, indices, yy, Xw, j),
                    f"{vq(data)} {vz(indptr)} {vz(indices)} {vq(yy)} {vq(Xw)} {z(j)}", "chk_F", xq)
    return cases


# ------------------------------------------------------------------ CD kernels (with concrete datafit / penalty)
def gen_cd_kernels(rng, n):
    """_cd_epoch(_sparse), construct_grad(_sparse), dist_fix_point_cd: real njit kernels with real compiled
    Quadratic / Huber + L1 / MCP / box objects vs the generated kernels applied to the generated methods"""
    import skglm.datafits.single_task as st
    import skglm.solvers.anderson_cd as acd
    import skglm.solvers.common as com
    pf, sep, cc = _imp()
    cases = []
    small = [-2.0, -1.0, -0.5, 0.0, 0.0, 0.5, 1.0, 2.0]
    for _ in range(max(1, n // 8)):
        ns, p = rng.randint(1, 4), rng.randint(1, 4)
        X = np.asfortranarray(np.array([[rng.choice(small) for _ in range(p)] for _ in range(ns)]))
        if rng.random() < 0.4:
            X[:, rng.randrange(p)] = 0.0                     # zero column: lc[j] = 0 -> stepsize 1000 branch
        y = np.array([rng.choice(small) for _ in range(ns)])
        w = np.array([rng.choice(small) for _ in range(p)])
        Xw = X @ w + rng.choice([0.0, 0.5])
        k = rng.randint(1, p)
        ws = np.array(rng.sample(range(p), k), dtype=np.int64)
        a, g_, pos = rng.choice([0.25, 0.5, 1.0]), rng.choice([3.0, 4.0]), rng.random() < 0.4
        delta = rng.choice([0.5, 1.0])
        data, indptr, indices = csc_of(X)
        dfs = [("Quadratic", st.Quadratic(), lambda o: f"(Quadratic_gradient_scalar {vq(o.Xty)})",
                lambda o: f"(Quadratic_gradient_scalar_sparse {vq(o.Xty)})"),
               ("Huber", st.Huber(delta), lambda o: f"(Huber_gradient_scalar {q(delta)})",
                lambda o: f"(Huber_gradient_scalar_sparse {q(delta)})")]
        pens = [("L1", sep.L1(a, pos), f"(L1_prox_1d {q(a)} {b(pos)})"),
                ("MCPenalty", sep.MCPenalty(a, g_, pos), f"(MCPenalty_prox_1d {q(a)} {q(g_)} {b(pos)})"),
                ("IndicatorBox", sep.IndicatorBox(a), f"(IndicatorBox_prox_1d {q(a)})")]
        dn, dinst, dgs, dgss = rng.choice(dfs)
        pn, pinst, pprox = rng.choice(pens)
        df, pen = cc(dinst), cc(pinst)
        df.initialize(X, y)
        lc = df.get_lipschitz(X, y)
        # dense epoch
        w1, Xw1 = w.copy(), Xw.copy()
        ok = call_impl(acd._cd_epoch, X, y, w1, Xw1, lc, df, pen, ws)
        exp = "None" if (ok is None and not np.all(np.isfinite(w1))) else f"(Some ({xvec(w1)[6:-1]}, {xvec(Xw1)[6:-1]}))"
        cases.append((f"_cd_epoch[{dn},{pn}]({X.tolist()},{list(y)},{list(w)},{list(Xw)},{list(lc)},{list(ws)})",
                      f"_cd_epoch {pprox} {dgs(df)} {mat(X)} {vq(y)} {vq(w)} {vq(Xw)} {vq(lc)} {vz(ws)}", "chk_VF2", exp))
        # sparse epoch
        df2 = cc(dinst)
        df2.initialize_sparse(data, indptr, indices, y)
        w2, Xw2 = w.copy(), Xw.copy()
        call_impl(acd._cd_epoch_sparse, data, indptr, indices, y, w2, Xw2, lc, df2, pen, ws)
        exp = f"(Some ({xvec(w2)[6:-1]}, {xvec(Xw2)[6:-1]}))"
        cases.append((f"_cd_epoch_sparse[{dn},{pn}]({X.tolist()},{list(y)},{list(w)},{list(Xw)},{list(lc)},{list(ws)})",
                      f"_cd_epoch_sparse {dgss(df2)} {pprox} {vq(data)} {vz(indptr)} {vz(indices)} {vq(y)} {vq(w)} {vq(Xw)} {vq(lc)} {vz(ws)}",
                      "chk_VF2", exp))
        # construct_grad (dense / sparse)
        r = call_impl(com.construct_grad, X, y, w, Xw, df, ws)
        cases.append((f"construct_grad[{dn}]({X.tolist()},{list(y)},{list(w)},{list(Xw)},{list(ws)})",
                      f"construct_grad {dgs(df)} {mat(X)} {vq(y)} {vq(w)} {vq(Xw)} {vz(ws)}", "chk_VF", xvec(r)))
        r = call_impl(com.construct_grad_sparse, data, indptr, indices, y, w, Xw, df2, ws)
        cases.append((f"construct_grad_sparse[{dn}]({X.tolist()},{list(y)},{list(Xw)},{list(ws)})",
                      f"construct_grad_sparse {dgss(df2)} {vq(data)} {vz(indptr)} {vz(indices)} {vq(y)} {vq(w)} {vq(Xw)} {vz(ws)}",
                      "chk_VF", xvec(r)))
        # dist_fix_point_cd
        grad_ws = np.array([rng.choice(small) for _ in ws])
        lws = lc[ws]
        r = call_impl(com.dist_fix_point_cd, w, grad_ws, lws, df, pen, ws)
        cases.append((f"dist_fix_point_cd[{pn}]({list(w)},{list(grad_ws)},{list(lws)},{list(ws)})",
                      f"dist_fix_point_cd {pprox} {vq(w)} {vq(grad_ws)} {vq(lws)} {vz(ws)}", "chk_VF", xvec(r)))
    return cases


# ------------------------------------------------------------------ group BCD kernels
def gen_bcd_kernels(rng, n):
    """_bcd_epoch(_sparse), _construct_grad(_sparse) of group_bcd.py, dist_fix_point_bcd, QuadraticGroup.gradient_g(_sparse):
    the real njit kernels with real compiled QuadraticGroup + WeightedGroupL2 / WeightedL1GroupL2 objects vs the generated
    kernels applied to the generated methods.  Random partitions of the features into (non-contiguous) groups, zero
    columns (a zero Lipschitz constant skips the group), zero group weights."""
    import skglm.datafits.group as dg
    import skglm.penalties.block_separable as bs
    import skglm.solvers.group_bcd as gb
    import skglm.solvers.common as com
    pf, sep, cc = _imp()
    sig = gen_sig()
    cases = []
    small = [-2.0, -1.0, -0.5, 0.0, 0.0, 0.5, 1.0, 2.0]
    for _ in range(max(1, n // 7)):
        ns, p = rng.choice([1, 2, 4]), rng.randint(2, 5)
        X = np.asfortranarray(np.array([[rng.choice(small) for _ in range(p)] for _ in range(ns)]))
        perm = list(range(p)); rng.shuffle(perm)
        ng = rng.randint(1, min(3, p))
        cuts = sorted(rng.sample(range(1, p), ng - 1)) if ng > 1 else []
        grp_ptr = np.array([0] + cuts + [p], dtype=np.int32)
        grp_indices = np.array(perm, dtype=np.int32)
        if rng.random() < 0.4:
            g0 = rng.randrange(ng)
            X[:, grp_indices[grp_ptr[g0]:grp_ptr[g0 + 1]]] = 0.0          # all-zero group: lipschitz[g] = 0
        y = np.array([rng.choice(small) for _ in range(ns)])
        w = np.array([rng.choice(small) for _ in range(p)])
        Xw = X @ w + rng.choice([0.0, 0.5])
        ws = np.array(rng.sample(range(ng), rng.randint(1, ng)), dtype=np.int32)
        a = rng.choice([0.25, 0.5, 1.0])
        wg = np.array([rng.choice([0.0, 0.5, 1.0, 2.0]) for _ in range(ng)])
        wf = np.array([rng.choice([0.0, 0.5, 1.0]) for _ in range(p)])
        pos = rng.random() < 0.3
        pens = [("WeightedGroupL2", bs.WeightedGroupL2(a, wg, grp_ptr, grp_indices, pos),
                 dict(alpha=q(a), weights=vq(wg), grp_ptr=vz(grp_ptr), grp_indices=vz(grp_indices), positive=b(pos))),
                ("WeightedL1GroupL2", bs.WeightedL1GroupL2(a, wg, wf, grp_ptr, grp_indices),
                 dict(alpha=q(a), weights_groups=vq(wg), weights_features=vq(wf), grp_ptr=vz(grp_ptr), grp_indices=vz(grp_indices)))]
        pn, pinst, pfd = rng.choice(pens)
        pen = cc(pinst)
        df = cc(dg.QuadraticGroup(grp_ptr, grp_indices))
        dfd = dict(grp_ptr=vz(grp_ptr), grp_indices=vz(grp_indices))
        lip = np.array([rng.choice([0.5, 1.0, 2.0, 4.0]) for _ in range(ng)])
        for g in range(ng):
            if not X[:, grp_indices[grp_ptr[g]:grp_ptr[g + 1]]].any():
                lip[g] = 0.0
        data, indptr, indices = csc_of(X)
        gp, gi = vz(grp_ptr), vz(grp_indices)
        prox = f"({pn}_prox_1group {fields_of(sig, pn + '_prox_1group', pfd)})"
        gg = f"(QuadraticGroup_gradient_g {fields_of(sig, 'QuadraticGroup_gradient_g', dfd)})"
        ggs = f"(QuadraticGroup_gradient_g_sparse {fields_of(sig, 'QuadraticGroup_gradient_g_sparse', dfd)})"
        tagc = f"[{pn}] grp_ptr={grp_ptr.tolist()} grp_indices={grp_indices.tolist()} X={X.tolist()} y={y.tolist()} w={w.tolist()} Xw={Xw.tolist()} lip={lip.tolist()} ws={ws.tolist()} wg={wg.tolist()} wf={wf.tolist()} a={a} pos={pos}"
        # datafit group gradient, dense and sparse
        g = int(rng.choice(ws))
        r = call_impl(df.gradient_g, X, y, w, Xw, g)
        cases.append((f"QuadraticGroup_gradient_g g={g} {tagc}", f"{gg} {mat(X)} {vq(y)} {vq(w)} {vq(Xw)} {z(g)}", "chk_VF", xvec(r)))
        r = call_impl(df.gradient_g_sparse, data, indptr, indices, y, w, Xw, g)
        cases.append((f"QuadraticGroup_gradient_g_sparse g={g} {tagc}",
                      f"{ggs} {vq(data)} {vz(indptr)} {vz(indices)} {vq(y)} {vq(w)} {vq(Xw)} {z(g)}", "chk_VF", xvec(r)))
        # dense epoch
        w1, Xw1 = w.copy(), Xw.copy()
        ok = call_impl(gb._bcd_epoch, X, y, w1, Xw1, lip, df, pen, ws)
        fin = np.all(np.isfinite(w1)) and np.all(np.isfinite(Xw1))
        exp = f"(Some ({xvec(w1)[6:-1]}, {xvec(Xw1)[6:-1]}))" if fin else "None"
        cases.append((f"_bcd_epoch {tagc}", f"_bcd_epoch {gp} {gi} {gg} {prox} {mat(X)} {vq(y)} {vq(w)} {vq(Xw)} {vq(lip)} {vz(ws)}", "chk_VF2", exp))
        # sparse epoch
        w2, Xw2 = w.copy(), Xw.copy()
        call_impl(gb._bcd_epoch_sparse, data, indptr, indices, y, w2, Xw2, lip, df, pen, ws)
        fin = np.all(np.isfinite(w2)) and np.all(np.isfinite(Xw2))
        exp = f"(Some ({xvec(w2)[6:-1]}, {xvec(Xw2)[6:-1]}))" if fin else "None"
        cases.append((f"_bcd_epoch_sparse {tagc}",
                      f"_bcd_epoch_sparse {gp} {gi} {ggs} {prox} {vq(data)} {vz(indptr)} {vz(indices)} {vq(y)} {vq(w)} {vq(Xw)} {vq(lip)} {vz(ws)}",
                      "chk_VF2", exp))
        # stacked working-set gradient
        r = call_impl(gb._construct_grad, X, y, w, Xw, df, ws)
        cases.append((f"bcd_construct_grad {tagc}", f"bcd_construct_grad {gp} {gg} {mat(X)} {vq(y)} {vq(w)} {vq(Xw)} {vz(ws)}", "chk_VF", xvec(r)))
        r = call_impl(gb._construct_grad_sparse, data, indptr, indices, y, w, Xw, df, ws)
        cases.append((f"bcd_construct_grad_sparse {tagc}",
                      f"bcd_construct_grad_sparse {gp} {ggs} {vq(data)} {vz(indptr)} {vz(indices)} {vq(y)} {vq(w)} {vq(Xw)} {vz(ws)}", "chk_VF", xvec(r)))
        # fix-point score
        nws = int(sum(grp_ptr[g_ + 1] - grp_ptr[g_] for g_ in ws))
        grad_ws = np.array([rng.choice(small) for _ in range(nws)])
        r = call_impl(com.dist_fix_point_bcd, w, grad_ws, lip[ws], df, pen, ws)
        cases.append((f"dist_fix_point_bcd grad_ws={grad_ws.tolist()} {tagc}",
                      f"dist_fix_point_bcd {gp} {gi} {prox} {vq(w)} {vq(grad_ws)} {vq(lip[ws])} {vz(ws)}", "chk_VF", xvec(r)))
    return cases


BCD_KERNEL_IMPORTS = ["Gen.ProxFuncs", "Gen.PenBlock", "Gen.SparseOps", "Gen.DfGroup", "Gen.KernCD", "Gen.KernBCD"]


def add_bcd_kernel_corr(base, rng, n, tag, only=None):
    """run the group-BCD kernel correspondence and merge it into the correspondence record `base` of a property"""
    import tvlib
    kc = gen_bcd_kernels(rng, n)
    if only:
        kc = [c for c in kc if any(c[0].startswith(o) for o in only)]
    r = tvlib.run_cases(kc, BCD_KERNEL_IMPORTS, tag, shard=40, jobs=16)
    out = dict(base)
    out["cases"] = base.get("cases", 0) + len(kc)
    out["bad"] = (list(base.get("bad", [])) + r["bad"])[:20]
    out["errors"] = list(base.get("errors", [])) + r["errors"]
    d = dict(base.get("distribution", {}))
    kinds = {}
    for lab, *_ in kc:
        kinds[lab.split(" ")[0]] = kinds.get(lab.split(" ")[0], 0) + 1
    d["group_bcd_kernels"] = kinds
    out["distribution"] = d
    out["distinct_nontrivial"] = base.get("distinct_nontrivial", 0) + len({c[0] for c in kc})
    return out


# ------------------------------------------------------------------ prox-Newton kernels
def _def_params(defname):
    """ordered parameter names of a generated definition (parsed from Gen/*.v)"""
    import re, os, glob
    from tvlib import COQ
    for f in glob.glob(os.path.join(COQ, "Gen", "*.v")):
        m = re.search(r"^Definition " + re.escape(defname) + r" (.*?) : res", open(f).read(), re.M)
        if m:
            return re.findall(r"\((\w+) :", m.group(1))
    raise KeyError(defname)


def call_by_name(defname, env):
    return defname + " " + " ".join(env[p] for p in _def_params(defname))


def gen_pn_kernels(rng, n):
    """_descent_direction(_s), _backtrack_line_search(_s), _construct_grad(_sparse) of prox_newton.py: the real njit kernels with
    the real compiled Quadratic datafit and L1 / WeightedL1 penalties vs the regenerated kernels (one copy per value of
    fit_intercept / ws_strategy, as the translator specialises them) applied to the regenerated methods.  Designs with
    power-of-two column norms keep the coordinate steps dyadic."""
    import skglm.datafits.single_task as st
    import skglm.solvers.prox_newton as pn
    pf, sep, cc = _imp()
    sig = gen_sig()
    cases = []
    vals = [-2.0, -1.0, -0.5, 0.0, 0.0, 0.5, 1.0, 2.0]
    for _ in range(max(1, n // 6)):
        ns, p = 4, rng.randint(1, 3)
        X = np.zeros((ns, p), order="F")
        for j in range(p):
            k = rng.choice([0, 1, 2, 4, 4])
            for i in rng.sample(range(ns), k):
                X[i, j] = rng.choice([-1.0, 1.0])
        y = np.array([rng.choice(vals) for _ in range(ns)])
        fi = rng.random() < 0.5
        w = np.array([rng.choice(vals) for _ in range(p + fi)])
        Xw = X @ w[:p] + (w[-1] if fi else 0.0)
        if rng.random() < 0.2:
            Xw = Xw + 0.5                                                   # inconsistent start: still legal input
        ws = np.array(sorted(rng.sample(range(p), rng.randint(1, p))), dtype=np.int64)
        a, pos = rng.choice([0.25, 0.5, 1.0]), rng.random() < 0.3
        wts = np.array([rng.choice([0.0, 0.5, 1.0, 2.0]) for _ in range(p)])
        pens = [("L1", sep.L1(a, pos), dict(alpha=q(a), positive=b(pos))),
                ("WeightedL1", sep.WeightedL1(a, wts, pos), dict(alpha=q(a), weights=vq(wts), positive=b(pos)))]
        pn_, pinst, pfd = rng.choice(pens)
        pen, df = cc(pinst), cc(st.Quadratic())
        if pos:
            # the line search subtracts penalty values: the model keeps them finite, so start from a feasible point
            # (the direction kernel keeps w + delta feasible, hence every trial point of the line search)
            w[:p] = np.abs(w[:p])
            Xw = X @ w[:p] + (w[-1] if fi else 0.0)
        strat = rng.choice(["subdiff", "fixpoint"])
        tol = rng.choice([2.0 ** -3, 2.0 ** -6, 0.5])
        data, indptr, indices = csc_of(X)

        def meth(m):
            return f"({pn_}_{m} {fields_of(sig, pn_ + '_' + m, pfd)})"
        env = dict(datafit_raw_hessian="Quadratic_raw_hessian", datafit_raw_grad="Quadratic_raw_grad",
                   penalty_prox_1d=meth("prox_1d"), penalty_subdiff_distance=meth("subdiff_distance"),
                   penalty_value=f"(fun w__ => fin_of {meth('value')[:-1]} w__))",
                   X=mat(X), X_data=vq(data), X_indptr=vz(indptr), X_indices=vz(indices), y=vq(y), ws=vz(ws), tol=q(tol))
        tagc = f"[{pn_} fi={fi} {strat}] X={X.tolist()} y={y.tolist()} w={w.tolist()} Xw={Xw.tolist()} ws={ws.tolist()} a={a} pos={pos} wts={wts.tolist()} tol={tol}"
        grad_ws = np.array(call_impl(pn._construct_grad, X, y, w[:p], Xw, df, ws))
        cases.append((f"pn_construct_grad {tagc}", call_by_name("pn_construct_grad", dict(env, w=vq(w[:p]), Xw=vq(Xw))), "chk_VF", xvec(grad_ws)))
        r = call_impl(pn._construct_grad_sparse, data, indptr, indices, y, w[:p], Xw, df, ws)
        cases.append((f"pn_construct_grad_sparse {tagc}", call_by_name("pn_construct_grad_sparse", dict(env, w=vq(w[:p]), Xw=vq(Xw))), "chk_VF", xvec(r)))

        def x3(r):
            if r is None or not all(np.all(np.isfinite(np.asarray(t))) for t in r):
                return "None"
            return "(Some (" + ", ".join(xvec(t)[6:-1] for t in r) + "))"
        suffix = f"__fit_intercept_{fi}__ws_strategy_{strat}"
        env_d = dict(env, w_epoch=vq(w), Xw_epoch=vq(Xw), grad_ws=vq(grad_ws))
        r = call_impl(pn._descent_direction, X, y, w.copy(), Xw.copy(), fi, grad_ws.copy(), df, pen, ws, tol, strat)
        cases.append((f"_descent_direction {tagc}", call_by_name("_descent_direction" + suffix, env_d), "chk_VF3", x3(r)))
        rs = call_impl(pn._descent_direction_s, data, indptr, indices, y, w.copy(), Xw.copy(), fi, grad_ws.copy(), df, pen, ws, tol, strat)
        cases.append((f"_descent_direction_s {tagc}", call_by_name("_descent_direction_s" + suffix, env_d), "chk_VF3", x3(rs)))
        # line search along the direction just computed (or along a random one)
        if r is not None and (pos or rng.random() < 0.7):
            delta, Xdelta = np.asarray(r[0]), np.asarray(r[1])
        else:
            delta = np.array([rng.choice(vals) for _ in range(len(ws) + fi)])
            Xdelta = X[:, ws] @ delta[:len(ws)] + (delta[-1] if fi else 0.0)
        env_l = dict(env, delta_w_ws=vq(delta), X_delta_w_ws=vq(Xdelta), w=vq(w), Xw=vq(Xw))
        w1, Xw1 = w.copy(), Xw.copy()
        g1 = call_impl(pn._backtrack_line_search, X, y, w1, Xw1, fi, df, pen, delta.copy(), Xdelta.copy(), ws)
        cases.append((f"_backtrack_line_search delta={delta.tolist()} {tagc}", call_by_name(f"_backtrack_line_search__fit_intercept_{fi}", env_l),
                      "chk_VF3", x3(None if g1 is None else (w1, Xw1, g1))))
        w2, Xw2 = w.copy(), Xw.copy()
        g2 = call_impl(pn._backtrack_line_search_s, data, indptr, indices, y, w2, Xw2, fi, df, pen, delta.copy(), Xdelta.copy(), ws)
        cases.append((f"_backtrack_line_search_s delta={delta.tolist()} {tagc}", call_by_name(f"_backtrack_line_search_s__fit_intercept_{fi}", env_l),
                      "chk_VF3", x3(None if g2 is None else (w2, Xw2, g2))))
    return cases


PN_KERNEL_IMPORTS = ["Gen.ProxFuncs", "Gen.PenSeparable", "Gen.SparseOps", "Gen.DfSingle", "Gen.KernCD", "Gen.KernPN"]


def add_pn_kernel_corr(base, rng, n, tag, only=None):
    """run the prox-Newton kernel correspondence and merge it into the correspondence record `base` of a property"""
    import tvlib
    kc = gen_pn_kernels(rng, n)
    if only:
        kc = [c for c in kc if any(c[0].startswith(o) for o in only)]
    r = tvlib.run_cases(kc, PN_KERNEL_IMPORTS, tag, shard=30, jobs=16)
    out = dict(base)
    out["cases"] = base.get("cases", 0) + len(kc)
    out["bad"] = (list(base.get("bad", [])) + r["bad"])[:20]
    out["errors"] = list(base.get("errors", [])) + r["errors"]
    d = dict(base.get("distribution", {}))
    kinds = {}
    for lab, *_ in kc:
        kinds[lab.split(" ")[0]] = kinds.get(lab.split(" ")[0], 0) + 1
    d["prox_newton_kernels"] = kinds
    out["distribution"] = d
    out["distinct_nontrivial"] = base.get("distinct_nontrivial", 0) + len({c[0] for c in kc})
    return out
